#!/bin/sh
# Offline setup: nothing is installed; verify the interpreters, the wheel used as
# typing_extensions for 3.9/3.10, and that the framework imports.
cd "$(dirname "$0")" || exit 2
set -e
for p in /venv/bin/python /root/.pyenv/versions/3.11.7/bin/python /root/.pyenv/versions/3.10.13/bin/python /root/.pyenv/versions/3.9.18/bin/python; do
  if [ -x "$p" ]; then "$p" -c 'import sys; print("ok", sys.version.split()[0])'; else echo "missing interpreter $p (its legs are skipped)"; fi
done
test -f /opt/veriftools/wheels/typing_extensions-4.16.0-py3-none-any.whl || echo "typing_extensions wheel missing: 3.9/3.10 legs will fail"
mkdir -p .scratch evidence replays
PYTHONPATH="${VERIF_REPO:-/repo}:$(pwd)" PYTHONDONTWRITEBYTECODE=1 /venv/bin/python -c 'import sim.runner, sim.worker, stackscope; print("framework ok; stackscope from", stackscope.__file__)'

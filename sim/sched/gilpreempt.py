"""GIL-faithful pre-emption of stackscope's own code (the *inspecting* thread).

Assumption A-GIL (stated in stackscope's source and true of CPython >= 3.10 for
unspecialised code): a thread can lose the GIL only right after a CALL-family
instruction completes, right before a backward jump, at RESUME, or inside a C
function that blocks.  The chosen code objects are instrumented at instruction
level in the calling thread only (sys.monitoring INSTRUCTION events on 3.12,
sys.settrace opcode events on 3.11); at each legal boundary `on_boundary` is
called and may let other (baton-parked) threads run.
"""
import dis
import sys
import threading

PY = sys.version_info[:2]

CALL_OPS = set(["CALL", "CALL_FUNCTION_EX", "CALL_KW", "CALL_FUNCTION", "CALL_METHOD", "CALL_FUNCTION_KW",
                "INSTRUMENTED_CALL", "INSTRUMENTED_CALL_FUNCTION_EX"])
BACK_OPS = set(["JUMP_BACKWARD", "INSTRUMENTED_JUMP_BACKWARD", "JUMP_ABSOLUTE"])
RESUME_OPS = set(["RESUME", "INSTRUMENTED_RESUME"])

_opcache = {}


def ops_of(code):
    m = _opcache.get(id(code))
    if m is None or m[0] is not code:
        d = {}
        for ins in dis.get_instructions(code):
            d[ins.offset] = (ins.opname, ins.argval)
        m = (code, d)
        _opcache[id(code)] = m
    return m[1]


class Preempt(object):
    TOOL = 4

    def __init__(self, codes, on_boundary, max_yields=200):
        self.codes = [c for c in codes if c is not None]
        self.code_ids = set(id(c) for c in self.codes)
        self.on_boundary = on_boundary
        self.ident = None
        self.prev = {}
        self.nyields = 0
        self.max_yields = max_yields
        self.active = False
        self.in_callback = False
        self.boundaries_seen = 0

    # -- shared boundary logic --
    def at_instruction(self, code, offset, entry=False):
        if not self.active or self.in_callback or threading.get_ident() != self.ident:
            return
        ops = ops_of(code)
        cur = ops.get(offset)
        if cur is None:
            return
        op, argval = cur
        prev = self.prev.get(id(code))
        self.prev[id(code)] = op
        kind = None
        if entry and PY < (3, 11):
            # no RESUME instruction before 3.11: the eval-breaker check on function entry
            kind = "resume"
            self.prev[id(code)] = None
        elif op in RESUME_OPS:
            kind = "resume"
        elif op in BACK_OPS:
            if op != "JUMP_ABSOLUTE" or (isinstance(argval, int) and argval <= offset):
                kind = "backjump"
        elif prev in CALL_OPS:
            kind = "after_call"
        if kind is None:
            return
        self.boundaries_seen += 1
        if self.nyields >= self.max_yields:
            return
        self.in_callback = True
        try:
            if self.on_boundary(code, offset, kind):
                self.nyields += 1
        finally:
            self.in_callback = False

    def __enter__(self):
        self.ident = threading.get_ident()
        self.prev = {}
        if PY >= (3, 12):
            mon = sys.monitoring
            try:
                mon.use_tool_id(self.TOOL, "vsim-preempt")
            except ValueError:
                pass
            mon.register_callback(self.TOOL, mon.events.INSTRUCTION, self._mon_cb)
            for c in self.codes:
                mon.set_local_events(self.TOOL, c, mon.events.INSTRUCTION)
        else:
            self._old_trace = sys.gettrace()
            sys.settrace(self._trace_call)
        self.active = True
        return self

    def __exit__(self, *exc):
        self.active = False
        if PY >= (3, 12):
            mon = sys.monitoring
            for c in self.codes:
                mon.set_local_events(self.TOOL, c, 0)
            mon.register_callback(self.TOOL, mon.events.INSTRUCTION, None)
            try:
                mon.free_tool_id(self.TOOL)
            except Exception:
                pass
        else:
            sys.settrace(self._old_trace)
        return False

    # -- 3.12 --
    def _mon_cb(self, code, offset):
        self.at_instruction(code, offset)

    # -- <= 3.11 --
    def _trace_call(self, frame, event, arg):
        if id(frame.f_code) in self.code_ids:
            frame.f_trace_opcodes = True
            frame.f_trace_lines = False
            if event == "call":
                # the 'call' event stands for RESUME / function entry
                self.at_instruction(frame.f_code, frame.f_lasti if frame.f_lasti >= 0 else 0, entry=True)
            return self._trace_local
        return None

    def _trace_local(self, frame, event, arg):
        if event == "opcode":
            self.at_instruction(frame.f_code, frame.f_lasti)
        return self._trace_local

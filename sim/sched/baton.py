"""Baton scheduler: real threads, exactly one runnable at a time, the tape decides who.

Every world thread blocks in a C-level semaphore acquire at its yield points
(so a parked thread looks like one that lost the GIL inside a call); the
controller releases exactly one thread and waits until it yields, blocks or
exits.  Which thread runs next is a tape choice, so one tape is one schedule.
"""
import sys
import threading
import time

from ..kernel import HarnessError


class _T(object):
    def __init__(self, name, fn, index):
        self.name = name
        self.fn = fn
        self.index = index
        self.go = threading.Semaphore(0)
        self.thread = None
        self.done = False
        self.exc = None
        self.blocked_on = None
        self.label = "start"
        self.steps = 0


class Baton(object):
    def __init__(self, tape, ctx=None, max_steps=400):
        self.tape = tape
        self.ctx = ctx
        self.ts = []
        self.back = threading.Semaphore(0)
        self.local = threading.local()
        self.trace = []
        self.max_steps = max_steps
        self.steps = 0
        self.running = False

    def spawn(self, name, fn):
        t = _T(name, fn, len(self.ts))
        self.ts.append(t)

        def body():
            self.local.t = t
            t.go.acquire()
            try:
                fn()
            except BaseException as e:  # reported by run()
                t.exc = e
            finally:
                t.done = True
                self.back.release()

        t.thread = threading.Thread(target=body, name="baton-" + name)
        t.thread.daemon = True
        t.thread.start()
        return t

    def current(self):
        return getattr(self.local, "t", None)

    def yield_(self, label="", blocked_on=None):
        """Called by a world thread: give the baton back and wait for the next turn."""
        t = self.current()
        if t is None or not self.running:
            return  # not a baton thread (single-threaded legs): no-op
        t.label = label
        t.blocked_on = blocked_on
        self.back.release()
        t.go.acquire()
        t.blocked_on = None

    def run(self, pick=None):
        """Scheduler loop (controller thread). pick(runnable) -> index may override the tape."""
        self.running = True
        try:
            while True:
                live = [t for t in self.ts if not t.done]
                if not live:
                    break
                runnable = [t for t in live if t.blocked_on is None or t.blocked_on()]
                if not runnable:
                    raise HarnessError("baton deadlock: %r" % [(t.name, t.label) for t in live])
                self.steps += 1
                if self.steps > self.max_steps:
                    # let everything run to completion in index order (bounded run)
                    t = runnable[0]
                else:
                    i = pick(runnable) if pick is not None else self.tape.choose(len(runnable))
                    t = runnable[i]
                self.trace.append((t.index, t.label))
                t.steps += 1
                t.go.release()
                if not self.back.acquire(timeout=60):
                    raise HarnessError("baton: thread %s did not yield within 60s (label %s)" % (t.name, t.label))
        finally:
            self.running = False
        for t in self.ts:
            t.thread.join(10)
        for t in self.ts:
            if t.exc is not None:
                raise t.exc


class SimLock(object):
    """Baton-aware replacement for a threading.Lock used as a context manager:
    a thread that finds it taken yields the baton instead of blocking the process."""

    def __init__(self, baton):
        self.baton = baton
        self.owner = None
        self.contended = 0

    def locked(self):
        return self.owner is not None

    def acquire(self, blocking=True, timeout=-1):
        me = self.baton.current() or "main"
        while self.owner is not None:
            self.contended += 1
            if self.baton.current() is None:
                raise HarnessError("SimLock contended outside baton threads")
            self.baton.yield_("lock-wait", blocked_on=lambda: self.owner is None)
        self.owner = me
        return True

    def release(self):
        self.owner = None

    def __enter__(self):
        self.acquire()
        return self

    def __exit__(self, *exc):
        self.release()
        return False

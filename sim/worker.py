"""Worker entry point; runs inside whichever interpreter the leg names.

usage: python -m sim.worker <job.json>
The job file is a JSON object with "mode" in {batch, single, shrink, digests}.
The result is printed as one line "RESULT <json>" on stdout.
"""
import faulthandler
import importlib
import json
import os
import struct
import sys
import time
import traceback
import warnings

from .kernel import Tape, RunCtx, Violation, HarnessError, Skip, run_seed, jsonable


def _load_prop(name):
    return importlib.import_module("sim.props." + name.lower())


def _check_repo():
    repo = os.path.abspath(os.environ.get("VERIF_REPO", "/repo"))
    if repo not in sys.path[:3]:
        sys.path.insert(0, repo)
    import stackscope

    f = os.path.abspath(stackscope.__file__)
    if not f.startswith(repo + os.sep):
        raise HarnessError("stackscope imported from %s, not from %s" % (f, repo))


def execute(mod, leg, tape, params):
    """One simulated run. Returns (ctx, violation-dict-or-None)."""
    ctx = RunCtx(mod.PROPERTY, leg, tape, params)
    viol = None
    try:
        with warnings.catch_warnings():
            warnings.simplefilter("ignore")
            mod.run(ctx)
    except Violation as v:
        viol = {"kind": v.kind, "message": v.message, "detail": jsonable(v.detail)}
    except Skip:
        ctx.stat("skipped_cases")
    except HarnessError:
        raise
    except Exception as e:  # a bug in the harness, never a violation
        raise HarnessError(
            "harness exception in %s/%s: %r\n%s\ntape=%r"
            % (mod.PROPERTY, leg, e, traceback.format_exc(), tape.used)
        )
    finally:
        reset = getattr(mod, "reset", None)
        if reset is not None:
            reset()
    return ctx, viol


def batch(job):
    mod = _load_prop(job["prop"])
    leg = job["leg"]
    params = job.get("params", {})
    setup = getattr(mod, "setup", None)
    if setup is not None:
        setup(leg, params)
    t0 = time.time()
    budget = job.get("budget_s", 1e9)
    run_timeout = job.get("run_timeout")
    pfd = None
    if job.get("progress"):
        pfd = os.open(job["progress"], os.O_WRONLY | os.O_CREAT, 0o644)
    if pfd is not None:
        from . import kernel as _kernel

        _kernel.SUT_PHASE_HOOK[0] = lambda v: os.pwrite(pfd, struct.pack("<q", v), 8)
    res = {
        "runs": 0,
        "covers": set(),
        "faults": {},
        "stats": {},
        "samples": [],
        "digests": {},
        "violations": [],
        "next": None,
        "timed_out": False,
    }
    every = job.get("digest_every", 50)
    if not run_timeout:
        faulthandler.dump_traceback_later(budget + 120, exit=True, file=sys.__stderr__)
    i = job["start"]
    stop = job["stop"]
    step = job["step"]
    while i < stop:
        if time.time() - t0 > budget:
            res["timed_out"] = True
            break
        if pfd is not None:
            os.pwrite(pfd, struct.pack("<qq", i, 0), 0)
        if run_timeout:
            faulthandler.dump_traceback_later(run_timeout, exit=True, file=sys.__stderr__)
        tape = Tape(seed=run_seed(job["seed"], job["prop"], leg, i))
        ctx, viol = execute(mod, leg, tape, params)
        res["runs"] += 1
        res["covers"].update(ctx.covers)
        for k, v in ctx.faults.items():
            res["faults"][k] = res["faults"].get(k, 0) + v
        for k, v in ctx.stats.items():
            res["stats"][k] = res["stats"].get(k, 0) + v
        if len(res["samples"]) < 2 and ctx.sample is not None:
            res["samples"].append(jsonable(ctx.sample))
        if every and i % every == 0:
            res["digests"][str(i)] = ctx.digest()
        if viol is not None:
            # at most 8 records per violation kind (a frequent known finding must not crowd
            # out a different violation)
            nk = sum(1 for v in res["violations"] if v.get("kind") == viol.get("kind"))
            if nk < 8 and len(res["violations"]) < 80:
                viol.update({"index": i, "tape": list(tape.used), "case": jsonable(ctx.case)})
                res["violations"].append(viol)
        i += step
    res["next"] = i
    faulthandler.cancel_dump_traceback_later()
    if pfd is not None:
        os.pwrite(pfd, struct.pack("<q", -1), 0)
        os.close(pfd)
    res["covers"] = sorted(res["covers"])
    res["wall_s"] = time.time() - t0
    return res


def single(job):
    mod = _load_prop(job["prop"])
    leg = job["leg"]
    params = job.get("params", {})
    setup = getattr(mod, "setup", None)
    if setup is not None:
        setup(leg, params)
    if job.get("run_timeout"):
        faulthandler.dump_traceback_later(job["run_timeout"], exit=True, file=sys.__stderr__)
    if job.get("tape") is not None:
        tape = Tape(values=job["tape"])
    else:
        tape = Tape(seed=run_seed(job["seed"], job["prop"], leg, job["index"]))
    ctx, viol = execute(mod, leg, tape, params)
    return {
        "violation": viol,
        "digest": ctx.digest(),
        "tape": list(tape.used),
        "case": jsonable(ctx.case),
        "faults": ctx.faults,
        "events": len(ctx.events),
    }


def digests(job):
    mod = _load_prop(job["prop"])
    leg = job["leg"]
    params = job.get("params", {})
    setup = getattr(mod, "setup", None)
    if setup is not None:
        setup(leg, params)
    out = {}
    for i in job["indices"]:
        tape = Tape(seed=run_seed(job["seed"], job["prop"], leg, i))
        ctx, viol = execute(mod, leg, tape, params)
        out[str(i)] = ctx.digest()
    return {"digests": out}


def shrink(job):
    """Tape shrinking in the Hypothesis style, in-process.

    A candidate is accepted only if a fresh run fails with the same
    discrepancy kind.
    """
    mod = _load_prop(job["prop"])
    leg = job["leg"]
    params = job.get("params", {})
    setup = getattr(mod, "setup", None)
    if setup is not None:
        setup(leg, params)
    kind = job["kind"]
    t0 = time.time()
    budget = job.get("budget_s", 60)
    tries = [0]
    if job.get("run_timeout"):
        faulthandler.dump_traceback_later(budget + 60 + job["run_timeout"], exit=True, file=sys.__stderr__)

    def test(values):
        tries[0] += 1
        tape = Tape(values=values)
        ctx, viol = execute(mod, leg, tape, params)
        if viol is not None and viol["kind"] == kind:
            return list(tape.used), viol, ctx
        return None

    first = test(job["tape"])
    if first is None:
        return {"reproduced": False}
    best, bviol, bctx = first

    def out_of_time():
        return time.time() - t0 > budget

    improved = True
    while improved and not out_of_time():
        improved = False
        # 1. delete spans
        size = max(1, len(best) // 2)
        while size >= 1 and not out_of_time():
            i = 0
            while i < len(best) and not out_of_time():
                cand = best[:i] + best[i + size :]
                r = test(cand)
                if r is not None and (len(r[0]), r[0]) < (len(best), best):
                    best, bviol, bctx = r
                    improved = True
                else:
                    i += size
            size //= 2
        # 2. zero spans
        size = max(1, len(best) // 2)
        while size >= 1 and not out_of_time():
            i = 0
            while i < len(best) and not out_of_time():
                if any(best[i : i + size]):
                    cand = best[:i] + [0] * len(best[i : i + size]) + best[i + size :]
                    r = test(cand)
                    if r is not None and (len(r[0]), r[0]) < (len(best), best):
                        best, bviol, bctx = r
                        improved = True
                i += size
            size //= 2
        # 3. lower single values
        i = 0
        while i < len(best) and not out_of_time():
            v = best[i]
            for nv in (0, v // 2, v - 1):
                if 0 <= nv < v:
                    cand = best[:i] + [nv] + best[i + 1 :]
                    r = test(cand)
                    if r is not None and (len(r[0]), r[0]) < (len(best), best):
                        best, bviol, bctx = r
                        improved = True
                        break
            i += 1
    return {
        "reproduced": True,
        "tape": best,
        "violation": bviol,
        "case": jsonable(bctx.case),
        "faults": bctx.faults,
        "tries": tries[0],
        "wall_s": time.time() - t0,
    }


def main(argv):
    with open(argv[1]) as f:
        job = json.load(f)
    # stackscope prints tracebacks of analysis failures to sys.stderr; keep the
    # real fd 2 for faulthandler only.
    if not job.get("verbose"):
        sys.stderr = open(os.devnull, "w")
    faulthandler.enable(file=sys.__stderr__)
    sys.setrecursionlimit(3000)
    try:
        _check_repo()
        mode = job["mode"]
        if mode == "batch":
            res = batch(job)
        elif mode == "single":
            res = single(job)
        elif mode == "shrink":
            res = shrink(job)
        elif mode == "digests":
            res = digests(job)
        else:
            raise HarnessError("unknown mode %r" % mode)
    except HarnessError as e:
        sys.stdout.write("RESULT " + json.dumps({"harness_error": str(e)}) + "\n")
        sys.stdout.flush()
        os._exit(3)
    except BaseException as e:
        sys.stdout.write(
            "RESULT " + json.dumps({"harness_error": "%r\n%s" % (e, traceback.format_exc())}) + "\n"
        )
        sys.stdout.flush()
        os._exit(3)
    sys.stdout.write("RESULT " + json.dumps(res) + "\n")
    sys.stdout.flush()
    os._exit(0)


if __name__ == "__main__":
    main(sys.argv)

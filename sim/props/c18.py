"""C18 - tree formatting is well-formed; reading it back recovers the Stack's structure.

Weak fit, said plainly: formatting is a pure function of a Stack.  Claimed as a
snapshot invariant on every Stack the program / chain / Trio simulations
produce, plus tape-drawn perturbations of those Stacks and source faults
through the one I/O seam (linecache).
"""
import gc
import linecache
import random
import warnings

from ..kernel import Violation
from ..world import fmt, observe, progworld

PROPERTY = "C18"
LEVEL = "exploration"
RULE = (
    "population = every Stack extracted at every suspension and probe of the program world (inner stacks of generator-based managers, exit-stack child contexts, exiting contexts, running stacks), "
    "each also perturbed by tape-drawn edits (toggle hide on frames/contexts, hide_line, drop start_line/description/varname/obj, attach stub / populated / unidentified child task stacks and extra child contexts, leaf, multi-line error) "
    "and rendered under source faults (generated file missing from linecache, truncated, garbled); all 8 option combinations. An independent reader rebuilds the tree from the box-drawing prefixes and compares it with the Stack object; "
    "line termination, str()==join(format()), ascii_only = marker-for-marker translation, hidden iff show_hidden_frames, show_contexts=False = frame series only. distinct = (perturbation kinds applied, source fault, option combination, shape signature)"
)
ASSUMPTIONS = [
    "reprs and source lines are single-line, ASCII and do not start with a prefix marker (limits of the format itself, respected by the generator, see DESIGN.md section 5 C18)",
    "child kind (Context vs task Stack) is not compared: a described child Context with an inner stack and a populated child Stack are lexically the same shape",
]
REAL_VS_STUB = {"real": ["Stack/Frame/Context._format, Formattable.format/__str__", "linecache"], "stub": ["independent prefix reader", "perturbations of real Stacks", "in-memory source files"]}
RARE_PROBES = ["source_missing", "source_truncated", "source_garbled", "perturbed", "c18_renderings"]
LEGS = [
    {"name": "fmt312", "python": "3.12", "quick": 1500, "thorough": 40000, "quick_s": 50, "thorough_s": 420},
    {"name": "fmt39", "python": "3.9", "quick": 600, "thorough": 15000, "quick_s": 40, "thorough_s": 300},
]

WHICH = "c18"


class FormatBattery(observe.Battery):
    which = "c18"

    def __init__(self, ctx, checks, W):
        observe.Battery.__init__(self, ctx, checks, W)
        self.rng = random.Random(ctx.tape.choose(1 << 16))
        self.extra = []

    def check(self, st, label):
        fmt.check_format(self.ctx, st, label)

    def both(self, W, make, label):
        import stackscope

        ctx = self.ctx
        with warnings.catch_warnings():
            warnings.simplefilter("ignore")
            st = make()
        self.check(st, label)
        if len(self.extra) < 4:
            self.extra.append(st)
        # perturbed copy: extract again and edit in place
        with warnings.catch_warnings():
            warnings.simplefilter("ignore")
            st2 = make()
        done = fmt.perturb(self.rng, st2, self.extra)
        fault = None
        saved = linecache.cache.get(W.filename)
        r = self.rng.random()
        if r < 0.1:
            linecache.cache.pop(W.filename, None)
            fault = "source_missing"
        elif r < 0.2 and saved is not None:
            lines = saved[2][: max(1, len(saved[2]) // 2)]
            linecache.cache[W.filename] = (saved[0], None, lines, W.filename)
            fault = "source_truncated"
        elif r < 0.3 and saved is not None:
            lines = ["\t  %s  \n" % l.strip()[::-1] if i % 2 else "\n" for i, l in enumerate(saved[2])]
            linecache.cache[W.filename] = (saved[0], None, lines, W.filename)
            fault = "source_garbled"
        try:
            if fault:
                ctx.fault(fault)
            if done:
                ctx.stat("perturbed")
            self.check(st2, label + " perturbed %r %s" % (sorted(set(done)), fault))
            ctx.cover((self.which, tuple(sorted(set(done))), fault))
        finally:
            if saved is not None:
                linecache.cache[W.filename] = saved
        ctx.log(self.which, label, len(st.frames), tuple(sorted(set(done))), fault)

    def on_suspend(self, W, root, kind):
        import stackscope

        self.nobs += 1
        self.both(W, lambda: stackscope.extract(root), "suspended")

    def on_probe(self, W, F, pid, where):
        import stackscope

        outer = W.frames[0].pyframe
        self.both(W, lambda: stackscope.extract_since(outer), "running(%s)" % where)


def run(ctx):
    progworld.run_program(ctx, [], force={"gcm": True, "es": True}, battery_cls=FormatBattery)

"""C19 - standard-library summaries and flat format faithfully project the Stack.

Weak fit, said plainly: formatting is a pure function of a Stack.  Claimed as a
snapshot invariant on every Stack the program / chain / Trio simulations
produce, plus tape-drawn perturbations of those Stacks and source faults
through the one I/O seam (linecache).
"""
import gc
import linecache
import random
import warnings

from ..kernel import Violation
from ..world import fmt, observe, progworld

PROPERTY = "C19"
LEVEL = "exploration"
RULE = (
    "same population of Stacks as C18 (program world, perturbed, under source faults); for every combination of show_contexts, show_hidden_frames and capture_locals as_stdlib_summary() must equal a reference projection written "
    "from the docstrings (one entry per visible frame; with contexts: an entry at the with line per visible context, then its inner stack, then child contexts; the frame's own entry omitted iff its last context is exiting), "
    "survive a pickle round trip unchanged and reference no frame object; format_flat() must be header + StackSummary.format() + leaf line + error lines. distinct = (perturbation kinds, source fault)"
)
ASSUMPTIONS = ["the projection (sim/world/fmt.py: project_stack) is read off the docstrings of as_stdlib_summary / as_stdlib_summary_with_contexts"]
REAL_VS_STUB = {"real": ["Stack.as_stdlib_summary, Frame.as_stdlib_summary(_with_contexts), Context._frame_summaries, Stack.format_flat", "traceback.StackSummary", "pickle"], "stub": ["reference projection", "perturbations of real Stacks", "in-memory source files"]}
RARE_PROBES = ["source_missing", "source_truncated", "source_garbled", "perturbed", "c19_summaries"]
LEGS = [
    {"name": "fmt312", "python": "3.12", "quick": 1500, "thorough": 40000, "quick_s": 50, "thorough_s": 420},
    {"name": "fmt39", "python": "3.9", "quick": 600, "thorough": 15000, "quick_s": 40, "thorough_s": 300},
]

from . import c18 as _c18


class SummaryBattery(_c18.FormatBattery):
    which = "c19"

    def check(self, st, label):
        fmt.check_summary(self.ctx, st, label)


def run(ctx):
    progworld.run_program(ctx, [], force={"gcm": True, "es": True}, battery_cls=SummaryBattery)

"""C06 - extraction is a pure observation: no perturbation, repeatable, nothing retained.

Twin runs of one generated program on the same tape: unobserved, then observed
at a tape-derived subset of suspensions and probes (1-3 extractions each).
"""
import gc
import random
import sys
import types
import weakref

from ..kernel import Tape, Violation
from ..world import driver, observe, progworld

PROPERTY = "C06"
LEVEL = "exploration"
RULE = (
    "one case = a generated program (program world of C01/C02, plus sentinel objects that live only on the value stack of suspended frames) run twice on the same tape: "
    "unobserved, then observed at a seeded subset of its suspensions and probes with 1-3 extract() calls each (suspended root, running stack, running root). "
    "Oracles: identical world event logs; consecutive extractions of an unchanged target compare equal; sys.getrefcount of every sentinel, manager and generator-like object "
    "returns to its pre-observation value after results are dropped and gc.collect(); the same objects are collectable after both twins; no suspended generator created by "
    "stackscope itself is left in gc.get_objects(); worker death by signal is a violation. distinct = (python, mode, #observations, #sentinels live, kinds of suspension observed)"
)
ASSUMPTIONS = [
    "refcount comparison is made at the same program state (before the first and after the last extraction of one observation point)",
    "gc is disabled while a twin runs and collected explicitly, so collection order is the same in both twins",
]
REAL_VS_STUB = {"real": ["stackscope", "CPython refcounting / gc of each leg", "ctypes frame reads"], "stub": ["generated programs", "shadow managers (unused as oracle here)", "driver"]}
RARE_PROBES = ["retention_compared", "sentinels_on_stack", "observed_probes", "observed_suspensions", "equal_pairs"]
LEGS = []
for py, nq in (("3.12", 1600), ("3.11", 800), ("3.10", 800), ("3.9", 800)):
    tag = py.replace(".", "")
    LEGS.append({"name": "twin" + tag, "python": py, "quick": nq, "thorough": nq * 30, "quick_s": 45, "thorough_s": 400, "params": {"trickery": None}, "crash_is_violation": True})
    LEGS.append({"name": "twinref" + tag, "python": py, "quick": nq // 2, "thorough": nq * 10, "quick_s": 30, "thorough_s": 200, "params": {"trickery": False}, "crash_is_violation": True})

_checked_process = [False]
STRICT_NO_GC = True


def leftover_generators():
    """Suspended generator-like objects whose code lives in the stackscope package."""
    import stackscope
    import os

    pkg = os.path.dirname(os.path.abspath(stackscope.__file__))
    out = []
    for o in gc.get_objects():
        if isinstance(o, (types.GeneratorType, types.AsyncGeneratorType, types.CoroutineType)):
            code = getattr(o, "gi_code", None) or getattr(o, "ag_code", None) or getattr(o, "cr_code", None)
            fr = getattr(o, "gi_frame", None) or getattr(o, "ag_frame", None) or getattr(o, "cr_frame", None)
            if code is not None and fr is not None and code.co_filename.startswith(pkg) and "_tests" not in code.co_filename:
                if fr.f_lasti >= 0 and not (getattr(o, "gi_running", False) or getattr(o, "cr_running", False) or getattr(o, "ag_running", False)):
                    out.append(code.co_name)
    return out


class PureBattery(observe.Battery):
    def __init__(self, ctx, checks, W):
        observe.Battery.__init__(self, ctx, checks, W)
        self.rng = None
        self.nsusp = 0
        self.nprobe = 0
        self.kinds = set()

    def tracked(self, W):
        # only objects reachable solely from a value stack: locals (managers bound
        # by `as`, `self` of a running method) legitimately gain a reference from
        # the frame's own f_locals snapshot once anyone reads frame.f_locals
        objs = W.live_sentinels()
        nsent = len(objs)
        # managers that are entered (not entering / exiting, so no method of theirs has a
        # frame with `self`), were not pre-bound to a local, and are not exit stacks (whose
        # __enter__ returns the stack itself): reachable from the program only through the
        # bound __exit__ on a value stack / an exit stack's callback list
        prebound = set()
        for key, info in getattr(W.prog, "items", {}).items():
            if info.get("prebound"):
                prebound.add(key)
        for rec in W.frames:
            for e in rec.shadow:
                m = e.mgr
                if e.state != "entered" or not hasattr(m, "enter_script") or (rec.name, e.k) in prebound:
                    continue
                objs.append(m)
        return objs, nsent

    def measure(self, objs):
        return [sys.getrefcount(o) for o in objs]

    def observe_point(self, W, fn_list, label):
        """fn_list: callables returning a Stack; called 1-3 times each."""
        ctx = self.ctx
        objs, nsent = self.tracked(W)
        if nsent:
            ctx.stat("sentinels_on_stack", nsent)
        gc.collect()
        rc0 = self.measure(objs)
        reps = 1 + self.rng.randrange(3)
        import stackscope
        from .c05 import all_stacks

        had_error = False

        for target in fn_list:
            prev = None
            for r in range(reps):
                # one call site, so the calling frame (this one) is the same
                # object on the same line in every repetition
                st = stackscope.extract(target)
                if any(s_.error is not None for (s_, _d) in all_stacks(st)):
                    # a recorded exception references, through its traceback, the frames of the
                    # extraction that caught it (and they reference it): that is cyclic garbage by
                    # nature, released by the collector; the no-GC clause is only for clean extractions
                    had_error = True
                if prev is not None and st.error is None and prev.error is None:
                    ctx.stat("equal_pairs")
                    if not (st == prev):
                        raise Violation("c06_repeat_differs", "%s: two consecutive extractions of an unchanged target differ:\n%s\n---\n%s" % (label, prev, st), {"label": label})
                prev = st
            del st, prev
        # this very frame is part of the running stacks we extract, so stackscope has
        # read its f_locals; CPython keeps that snapshot dict on the frame, with the Stack
        # objects `st` / `prev` in it, until f_locals is read again: refresh it
        sys._getframe(0).f_locals
        rc_now = self.measure(objs)
        if rc_now != rc0 and STRICT_NO_GC and not had_error:
            diffs = [(type(o).__name__, a, b) for o, a, b in zip(objs, rc0, rc_now) if a != b]
            raise Violation(
                "c06_refcount_needs_gc",
                "%s: after dropping the results, reference counts are back to baseline only after a cyclic-GC pass: %r (type, before, after drop)" % (label, diffs[:5]),
                {"label": label},
            )
        gc.collect()
        rc1 = self.measure(objs)
        if rc0 != rc1:
            diffs = [(type(o).__name__, a, b) for o, a, b in zip(objs, rc0, rc1) if a != b]
            raise Violation(
                "c06_refcount_not_restored",
                "%s: reference counts after dropping the results differ from before the observation: %r (type, before, after)" % (label, diffs[:5]),
                {"label": label, "diffs": diffs[:5]},
            )
        self.kinds.add(label)

    def on_suspend(self, W, root, kind):
        import stackscope

        if self.rng.random() < 0.35:
            return None
        self.nsusp += 1
        self.ctx.stat("observed_suspensions")
        self.observe_point(W, [root], "suspended:" + kind)
        return None

    def on_probe(self, W, F, pid, where):
        import stackscope

        if self.rng.random() < 0.35:
            return None
        self.nprobe += 1
        self.ctx.stat("observed_probes")
        outer = None
        fr = sys._getframe(1)
        while fr is not None:
            if W.rec_of(fr) is not None:
                outer = fr
            fr = fr.f_back
        if outer is None:
            # no world frame is linked on this thread's stack (exception being delivered
            # through a non-generator awaitable): nothing of the world to observe from here,
            # and a slice without an outer frame would read the harness's own frames
            return None
        fns = [stackscope.StackSlice(outer=outer)]
        if outer is W.frames[0].pyframe:
            # the root task's own frame is on this thread's stack: it is running
            fns.append(W.root)
        self.observe_point(W, fns, "running:" + where)
        return None


def one_pass(ctx, tape, observed, oseed):
    """Returns (events, alive_count, battery)."""
    sub = type(ctx)(ctx.prop, ctx.leg, tape, ctx.params)
    sub.faults = ctx.faults if observed else {}
    sub.stats = ctx.stats if observed else {}
    b = driver.build(sub, {"probe": True, "sentinel": True, "use_sentinels": True}, None)
    W = b.W
    W.abort = False
    bat = None
    pending = []
    if observed:
        bat = PureBattery(sub, [], W)
        bat.rng = random.Random(oseed)

        def probe_hook(W_, F, pid, where):
            if pending:
                return
            try:
                bat.on_probe(W_, F, pid, where)
            except Violation as v:
                pending.append(v)
                W_.abort = True

        W.probe_hook = probe_hook
    drv = driver.Driver(b, sub, on_suspend=(lambda W_, r, k: bat.on_suspend(W_, r, k)) if observed else None)
    drv.run()
    if pending:
        raise pending[0]
    events = list(W.events)
    refs = [weakref.ref(m) for m in W.all_mgrs if type(m).__name__ not in ("lock", "RLock")]
    refs += [weakref.ref(g) for g in W.genlikes] + [weakref.ref(drv.root)]
    filename = b.filename
    text = b.prog.text
    sched = drv.schedule
    # end every generator-like of the world for good, the same way in both twins: what is
    # left suspended would be finalised by the garbage collector in an order of its own
    clean = driver.cleanup(b, drv.root)
    del b, W, drv
    if bat is not None:
        bat.W = None
    sub.case.clear()
    gc.collect()
    alive = sum(1 for r in refs if r() is not None)
    # frames cannot be weakly referenced: count the survivors of this program's code
    alive += sum(1 for o in gc.get_objects() if isinstance(o, types.FrameType) and o.f_code.co_filename == filename)
    if not clean:
        # some generator-like of the world could not be finished for good: what survives then is up
        # to the garbage collector's finalisation order, not to the code under test
        alive = None
    return events, alive, bat, text, sched


def run(ctx):
    from stackscope import _lowlevel as ll

    if not _checked_process[0]:
        _checked_process[0] = True
        import stackscope

        stackscope.extract(iter(()))
        left = leftover_generators()
        if left:
            raise Violation("c06_leftover_generator", "stackscope left suspended generator-like objects behind after its first extraction: %r" % left, {})
    ll.set_trickery_enabled(ctx.params.get("trickery"))
    oseed = ctx.tape.choose(1 << 16)
    # the generator draws use_sentinels through cfg: set by one_pass
    ev_plain, alive_plain, _, text, sched = one_pass(ctx, ctx.tape, False, oseed)
    tape2 = Tape(values=list(ctx.tape.used)[1:])
    ev_obs, alive_obs, bat, text2, sched2 = one_pass(ctx, tape2, True, oseed)
    ctx.case["program"] = text
    ctx.case["schedule"] = sched
    if text != text2:
        raise Violation("c06_twin_program_differs", "harness: twin programs differ", {})
    ctx.log("twin", len(ev_plain), len(ev_obs), bat.nsusp, bat.nprobe)
    if ev_plain != ev_obs:
        n = 0
        while n < min(len(ev_plain), len(ev_obs)) and ev_plain[n] == ev_obs[n]:
            n += 1
        raise Violation(
            "c06_behaviour_perturbed",
            "world event logs of the observed and the unobserved twin differ at event %d: unobserved %r, observed %r"
            % (n, ev_plain[n : n + 3], ev_obs[n : n + 3]),
            {"at": n},
        )
    if alive_obs is None or alive_plain is None:
        ctx.stat("retention_not_compared_unclean_world")
    elif alive_plain != 0:
        # survivors in the unobserved twin as well: the world itself keeps something alive (a
        # generator-like in limbo after a finaliser threw GeneratorExit into it); the count then
        # depends on the collector's order, so it says nothing about the observer
        ctx.stat("retention_not_compared_unclean_world")
    else:
        ctx.stat("retention_compared")
    if alive_obs is not None and alive_plain == 0 and alive_obs != alive_plain:
        raise Violation(
            "c06_objects_retained",
            "%d managers/generators/frames still alive after the observed twin, %d after the unobserved one" % (alive_obs, alive_plain),
            {},
        )
    if bat.nsusp or bat.nprobe:
        ctx.cover(("c06", observe.PY, ctx.params.get("trickery"), min(bat.nsusp, 4), min(bat.nprobe, 4), tuple(sorted(bat.kinds))))
    ctx.sample = {"program": text, "schedule": sched, "observed_suspensions": bat.nsusp, "observed_probes": bat.nprobe}


def reset():
    from stackscope import _lowlevel as ll

    ll.set_trickery_enabled(None)

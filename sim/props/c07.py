"""C07 - thread stacks: exact when the thread is blocked, memory-safe when it is racing."""
import gc
import sys
import threading
import warnings

from ..kernel import Violation, HarnessError
from ..sched.gilpreempt import Preempt
from ..world import observe, threads

PROPERTY = "C07"
LEVEL = "exploration"
RULE = (
    "blocked legs: 1-3 real threads run generated sync programs (nested with blocks, generator-based managers, exit stacks, calls 1-4 deep) and park in lock.acquire() at generated yield points "
    "(called directly from the generated frame, or through Python helpers); after every step extract(thread) must equal the thread's f_back chain with exact contexts; unstarted / finished threads give no frames. "
    "racing legs: the same threads, but the extractor (this thread) is instrumented at instruction level in inspect_frame, _parse_exception_table, unwrap_thread, unwrap_stackslice and its try_from; at every legal "
    "GIL-release boundary (after a CALL returns, before a backward jump, at RESUME) the tape may let a target take 1-4 steps (move in the frame, leave a with, return, call deeper, re-enter, exit the thread). "
    "Oracles: no signal death, no exception from extract, every reported frame belongs to the inspected thread, lowlevel.inspect_frame either raises or its (blocks, stack) name exactly the managers the frame had entered "
    "at one of the positions the target occupied during the call; on 3.11 / 3.12 every slot read (py_object array item) must address a slot the frame owns at that moment (same frame storage, below the current depth); on 3.9 / 3.10 every ctypes.cast(address, py_object) inside inspect_frame is judged when it happens against an ownership log of the inspected "
    "frame's value stack (what each slot owned at the start and after every step of the target, objects pinned so that addresses cannot be recycled): dereferencing an address the frame no longer owns is a violation "
    "(c07_stale_pointer_dereferenced) and is withheld. distinct = (leg, boundary kind, extractor function, target progress class) tuples and blocked-stack shapes"
)
ASSUMPTIONS = [
    "A-GIL: a thread loses the GIL only after a CALL completes, before a backward jump, at RESUME or inside a blocking C call (stated in stackscope's own source; holds for instrumented = unspecialised code on CPython >= 3.10). On 3.10 a taken conditional jump and on 3.9 almost every instruction may also release the GIL: the boundaries used are a sound subset there (every hand-over shown can happen; some that can happen are not shown)",
    "3.9 / 3.10: the stack depth of a running frame is not recorded by the interpreter; it is computed per instruction from dis.stack_effect (self-checked against f_stackdepth / f_stacktop of suspended generator frames)",
    "targets are never instrumented: they move only between generated yield points that are direct C calls, so every state shown to stackscope is one real execution can show",
    "the 'randomised stress with shortened switch intervals' part of the quantifier is not done: uncontrolled GIL scheduling is not replayable",
]
REAL_VS_STUB = {"real": ["stackscope incl. ctypes frame reads", "real threads, real GIL hand-over at blocking calls", "sys.monitoring / sys.settrace instrumentation of stackscope's own code objects"],
                "seam": ["stackscope._lowlevel_cpython_310.ctypes (module global) replaced by a pass-through stand-in that judges py_object casts and notes slot reads; nothing in /repo is changed"],
                "stub": ["generated sync programs", "controller deciding every hand-over", "shadow managers"]}
RARE_PROBES = ["ident_reused", "loop_template_targets", "retry_loop_taken", "snapshot_rejected", "target_frame_returned_during_inspect", "thread_exited_during_extract", "unstarted_checked", "finished_checked", "preempt_yields", "targeted_handovers", "two_point_handovers", "suspended_generator_frames_inspected", "static_depth_self_checks", "blocked_generator_like_frames_checked", "blocked_frames_with_async_contexts"]
LEGS = [
    {"name": "blocked312", "python": "3.12", "quick": 500, "thorough": 15000, "quick_s": 50, "thorough_s": 400, "run_timeout": 120, "crash_is_violation": True, "params": {"mode": "blocked"}},
    {"name": "blocked311", "python": "3.11", "quick": 250, "thorough": 6000, "quick_s": 40, "thorough_s": 300, "run_timeout": 120, "crash_is_violation": True, "params": {"mode": "blocked"}},
    {"name": "blocked310", "python": "3.10", "quick": 250, "thorough": 6000, "quick_s": 40, "thorough_s": 300, "run_timeout": 120, "crash_is_violation": True, "params": {"mode": "blocked"}},
    {"name": "blocked39", "python": "3.9", "quick": 250, "thorough": 6000, "quick_s": 40, "thorough_s": 300, "run_timeout": 120, "crash_is_violation": True, "params": {"mode": "blocked"}},
    {"name": "racing312", "python": "3.12", "quick": 4000, "thorough": 120000, "quick_s": 55, "thorough_s": 420, "run_timeout": 120, "crash_is_violation": True, "params": {"mode": "racing"}},
    {"name": "racing310", "python": "3.10", "quick": 2500, "thorough": 80000, "quick_s": 45, "thorough_s": 400, "run_timeout": 120, "crash_is_violation": True, "params": {"mode": "racing"}},
    {"name": "racing39", "python": "3.9", "quick": 2500, "thorough": 80000, "quick_s": 45, "thorough_s": 400, "run_timeout": 120, "crash_is_violation": True, "params": {"mode": "racing"}},
    {"name": "racing311", "python": "3.11", "quick": 2500, "thorough": 80000, "quick_s": 45, "thorough_s": 400, "run_timeout": 120, "crash_is_violation": True, "params": {"mode": "racing"}},
]


class CastGuard(object):
    """Stands in for the `ctypes` module inside stackscope._lowlevel_cpython_310.

    Turning an address into an object reference (ctypes.cast(address, py_object).value
    takes a new reference, i.e. writes to the object's header) is only memory-safe if
    the address was read from a value-stack slot that has owned that object ever
    since.  While the inspected thread is parked the harness knows exactly what
    the frame owns (world.stackdepth.OwnershipLog), so every such dereference in
    inspect_frame is judged when it happens.  An unsafe one is withheld (it would
    corrupt this process) and recorded."""

    def __init__(self, real):
        self._real = real
        self.log = None
        self.stale = []
        self.checked = 0
        guard = self

        class SizeT(object):
            @staticmethod
            def from_address(addr):
                r = real.c_size_t.from_address(addr)
                log = guard.log
                if log is not None:
                    slot = log.slot_of(addr)
                    if slot is not None:
                        log.note_read(slot, r.value)
                return r

        self.c_size_t = SizeT

    def __getattr__(self, name):
        return getattr(self._real, name)

    def sizeof(self, t):
        if t is self.c_size_t:
            t = self._real.c_size_t
        return self._real.sizeof(t)

    def cast(self, obj, typ):
        log = self.log
        if typ is self._real.py_object and isinstance(obj, int) and log is not None and not log.unknown:
            self.checked += 1
            if not log.owned_since_read(obj):
                self.stale.append(obj)
                return _Stale
        return self._real.cast(obj, typ)


class SlotGuard(object):
    """Stands in for the `ctypes` module inside stackscope._lowlevel_cpython_311.

    There inspect_frame reads a value-stack slot and takes the reference in one step
    (`(py_object * n).from_address(a)[i]`).  That is memory-safe only if, at that
    moment, the address still lies inside the part of the value stack that the frame
    owns: not after the frame has finished (its InterpreterFrame has moved into the
    frame object and the thread's stack memory is reused or returned), not above the
    current stack depth (a stale pointer).  The inspected thread is parked whenever the
    inspecting code runs, so the harness knows exactly what the frame owns
    (world.stackdepth.owned_slot_range) and judges every such read when it happens;
    an unsafe one is withheld and recorded."""

    def __init__(self, real, impl):
        self._real = real
        self.impl = impl
        self.frame = None
        self.log = None
        self.stale = []
        self.checked = 0
        # worlds in which nothing moves during one inspect_frame call (single-threaded) compute
        # the owned range once per call
        self.fixed_range = None
        guard = self

        class _Arr(object):
            def __init__(self, addr, n):
                self.addr = addr
                self.n = n
                self.real = (real.py_object * n).from_address(addr)

            def __getitem__(self, i):
                fr = guard.frame
                if fr is not None and isinstance(i, int) and 0 <= i < self.n:
                    from ..world import stackdepth

                    rng = guard.fixed_range if guard.fixed_range is not None else stackdepth.owned_slot_range(fr, guard.impl)
                    if rng is not None:
                        guard.checked += 1
                        base, n = rng
                        a = self.addr + i * stackdepth.WS
                        if not (base <= a < base + n * stackdepth.WS):
                            guard.stale.append(a)
                            return _Stale
                return self.real[i]

            def __len__(self):
                return self.n

        class _ArrType(object):
            def __init__(self, n):
                self.n = n

            def from_address(self, addr):
                return _Arr(addr, self.n)

        class _PyObj(object):
            def __mul__(self, n):
                return _ArrType(n)

            def __getattr__(self, name):
                return getattr(real.py_object, name)

        self.py_object = _PyObj()

        # Header fields are read through the frame object's pointer to its InterpreterFrame
        # (`frame_raw.f_frame.contents.<field>`).  Once the frame has finished, that pointer
        # has been redirected into the frame object and the old target, in the thread's own
        # stack memory, may have been reused or unmapped: a read through a pointer value that
        # is not the frame's current one is a read of memory the frame does not own.
        real_FrameObject = impl.FrameObject

        class _IFrame(object):
            def __init__(self, addr):
                object.__setattr__(self, "_addr", addr)

            def __getattr__(self, name):
                addr = object.__getattribute__(self, "_addr")
                fr = guard.frame
                if fr is not None:
                    guard.checked += 1
                    now = impl.FrameObjectFramePointer.from_address(id(fr)).f_frame
                    if now != addr:
                        guard.stale.append(addr)
                        return 0
                return getattr(impl.InterpreterFrame.from_address(addr), name)

        class _Ptr(object):
            def __init__(self, addr):
                self.contents = _IFrame(addr)

        class _FrameObj(object):
            def __init__(self, addr):
                object.__setattr__(self, "_real", real_FrameObject.from_address(addr))
                object.__setattr__(self, "_oaddr", addr)

            def __getattr__(self, name):
                if name == "f_frame":
                    return _Ptr(impl.FrameObjectFramePointer.from_address(object.__getattribute__(self, "_oaddr")).f_frame)
                return getattr(object.__getattribute__(self, "_real"), name)

        class _FrameObjType(object):
            _fields_ = real_FrameObject._fields_

            @staticmethod
            def from_address(addr):
                return _FrameObj(addr)

        self.FrameObjectProxy = _FrameObjType
        self._IFrame = _IFrame

    def addressof(self, obj):
        if isinstance(obj, self._IFrame):
            return object.__getattribute__(obj, "_addr")
        return self._real.addressof(obj)

    def __getattr__(self, name):
        return getattr(self._real, name)


class _StaleType(object):
    value = None

    def __repr__(self):
        return "<stale pointer>"


_Stale = _StaleType()
_Stale.value = _Stale
GUARD = None


def setup(leg, params):
    import stackscope

    global GUARD
    from stackscope import _lowlevel as _ll

    # first-use self-test of the analysis must not happen inside a run
    _ll._check_trickery_available()
    _ll.inspect_frame(sys._getframe())
    if sys.version_info >= (3, 11) and params.get("mode") in ("racing", "blocked"):
        from stackscope import _lowlevel_cpython_311 as impl

        if not isinstance(impl.ctypes, SlotGuard):
            GUARD = SlotGuard(impl.ctypes, impl)
            impl.ctypes = GUARD
            impl.FrameObject = GUARD.FrameObjectProxy
    if sys.version_info < (3, 11) and params.get("mode") == "racing":
        from stackscope import _lowlevel_cpython_310 as impl

        if not isinstance(impl.ctypes, CastGuard):
            GUARD = CastGuard(impl.ctypes)
            impl.ctypes = GUARD

    # glue for threading must be installed before we look at bootstrap frames
    stackscope.extract(None)


def compare_blocked(ctx, tg, st):
    W = tg.W
    truth = tg.stack()
    got = [f.pyframe for f in st.frames]
    if len(got) != len(truth) or any(a is not b for a, b in zip(got, truth)):
        raise Violation(
            "c07_blocked_frames",
            "extract(thread %s) frames %r, the thread's f_back chain is %r" % (tg.name, [f.f_code.co_name for f in got], [f.f_code.co_name for f in truth]),
            {"thread": tg.name},
        )
    if st.error is not None:
        raise Violation("c07_blocked_error", "extract(blocked thread).error = %r" % (st.error,), {})
    for f in st.frames:
        rec = W.rec_of(f.pyframe)
        if rec is not None:
            observe.compare_exact(W, rec, f.contexts, "c07", "blocked thread %s" % tg.name)
            if f.pyframe.f_code.co_flags & 0x1A0:  # generator / coroutine / async generator code
                ctx.stat("blocked_generator_like_frames_checked")
                if any(c.is_async for c in f.contexts):
                    ctx.stat("blocked_frames_with_async_contexts")
    for f in st.frames:
        if f.funcname in ("_bootstrap", "_bootstrap_inner", "run") and f.filename.endswith("threading.py") and not f.hide:
            raise Violation("c07_bootstrap_not_hidden", "thread bootstrap frame %s not hidden" % f.funcname, {})
    ctx.cover(("blocked", observe.PY, tuple(f.f_code.co_name for f in truth if f.f_code.co_filename.startswith("<vsim"))[:6], len(truth)))


def run_blocked(ctx):
    import stackscope

    t = ctx.tape
    n = 1 + t.weighted([3, 2, 1])
    tgs = [threads.Target(ctx, "T%d" % i) for i in range(n)]
    ctx.case["programs"] = [tg.program for tg in tgs]
    ctx.case.pop("program", None)
    # 3.11+: every slot / header read of inspect_frame is judged here as well (a blocked thread:
    # whatever the frame is parked in, no read may go beyond what it owns at that position)
    guard = GUARD if sys.version_info >= (3, 11) else None
    restore = None
    if guard is not None:
        from stackscope import _lowlevel, lowlevel
        from stackscope import _lowlevel_cpython_311 as impl

        _lowlevel.inspect_frame(sys._getframe())
        real_inspect = impl.inspect_frame
        guard.stale = []

        def watched_inspect(frame):
            f = sys._getframe(1)
            while f is not None:
                if f is frame:
                    return real_inspect(frame)
                f = f.f_back
            prev = guard.frame
            guard.frame = frame
            try:
                return real_inspect(frame)
            finally:
                guard.frame = prev

        _lowlevel.inspect_frame = watched_inspect
        lowlevel.inspect_frame = watched_inspect

        def restore():
            _lowlevel.inspect_frame = real_inspect
            lowlevel.inspect_frame = real_inspect
            guard.frame = None
            ctx.stat("casts_checked", guard.checked)
            guard.checked = 0

    try:
        # not started yet: no frames, no error
        for tg in tgs:
            st = stackscope.extract(tg.thread)
            ctx.stat("unstarted_checked")
            if st.frames or st.error is not None:
                raise Violation("c07_unstarted_thread", "extract(unstarted thread) -> %r" % (st,), {})
        for tg in tgs:
            tg.start()
        sched = []
        for step in range(4 + t.choose(20)):
            live = [tg for tg in tgs if not tg.done]
            if not live:
                break
            tg = live[t.choose(len(live))]
            tg.step()
            sched.append(tg.name)
            for other in tgs:
                with warnings.catch_warnings():
                    warnings.simplefilter("ignore")
                    st = stackscope.extract(other.thread)
                ctx.stat("blocked_extractions")
                if other.done:
                    ctx.stat("finished_checked")
                    if st.frames or st.error is not None:
                        raise Violation("c07_finished_thread", "extract(finished thread) -> frames %r error %r" % (st.frames, st.error), {})
                else:
                    if guard is not None and guard.stale:
                        nst = len(guard.stale)
                        guard.stale = []
                        raise Violation(
                            "c07_stale_pointer_dereferenced",
                            "extract(blocked thread %s): inspect_frame made %d read(s) beyond what the frame owns at the position it is parked in" % (other.name, nst),
                            {"thread": other.name},
                        )
                    compare_blocked(ctx, other, st)
                    ctx.log("B", other.name, len(st.frames))
        ctx.case["schedule"] = sched
        # thread identifiers are reused: a thread started right after another one has
        # exited usually gets the same ident, and sys._current_frames() is keyed by ident.
        # A finished thread must still give no frames (not the newcomer's).
        if t.choose(2) == 0:
            victim = tgs[0]
            victim.finish()
            dead_idents = set(tg.thread.ident for tg in tgs if tg.done)
            tiny = "def f0(W):\n    F = W.frame('f0')\n    W.rel(); W.acq()\n    W.rel(); W.acq()\n"
            reused = None
            for attempt in range(8):
                newcomer = threads.Target(ctx, "N%d" % attempt, text=tiny)
                tgs.append(newcomer)
                newcomer.start()
                if newcomer.thread.ident in dead_idents:
                    reused = newcomer
                    break
            if reused is not None:
                ctx.stat("ident_reused")
                for old in tgs:
                    if old.done and old.thread.ident == reused.thread.ident:
                        st = stackscope.extract(old.thread)
                        if st.frames or st.error is not None:
                            raise Violation(
                                "c07_finished_thread",
                                "extract(finished thread) -> frames %r although the thread is dead (its ident has been reused by a new thread)" % ([f.funcname for f in st.frames],),
                                {},
                            )
                st = stackscope.extract(reused.thread)
                compare_blocked(ctx, reused, st)
    finally:
        if restore is not None:
            restore()
        for tg in tgs:
            tg.finish()
    ctx.sample = {"programs": [tg.program for tg in tgs][:1], "schedule": ctx.case.get("schedule")}


def instrumented_codes():
    import stackscope
    from stackscope import _glue, _lowlevel, lowlevel

    codes = []
    if sys.version_info >= (3, 11):
        from stackscope import _lowlevel_cpython_311 as impl

        codes.append(impl.inspect_frame.__code__)
        codes.append(_lowlevel._parse_exception_table.__code__)
        codes.append(_lowlevel._parse_varint.__code__)
    else:
        from stackscope import _lowlevel_cpython_310 as impl

        for fname in ("inspect_frame", "_inspect_frame", "_is_on_this_thread"):
            fn = getattr(impl, fname, None)
            if fn is None:
                continue
            c0 = fn.__code__
            codes.append(c0)
            # comprehensions are code objects of their own before 3.12
            for const in c0.co_consts:
                if hasattr(const, "co_name") and const.co_name in ("<listcomp>", "<dictcomp>", "<genexpr>"):
                    if "get_objects" in c0.co_names and const.co_name == "<dictcomp>":
                        # filtering the list that gc.get_objects() has already returned (one step per
                        # object in the process): a hand-over in there has the effect of one right
                        # after the call, which is instrumented
                        continue
                    codes.append(const)
    us = _glue.unwrap_stackslice
    inner = getattr(us, "__wrapped__", us)
    codes.append(inner.__code__)
    for const in inner.__code__.co_consts:
        if hasattr(const, "co_name") and const.co_name == "try_from":
            codes.append(const)
    reg = stackscope.unwrap_stackitem.registry
    codes.append(reg[threading.Thread].__code__)
    codes.append(_lowlevel._contexts_active_by_trickery.__code__)
    codes.append(_lowlevel.contexts_active_in_frame.__code__)
    return codes


def entered_managers(rec):
    """(manager identity, line of its with statement) for every entered manager: the
    snapshot must pair each manager with the with-block it really belongs to."""
    items = getattr(rec.W.prog, "items", {})
    out = []
    for e in rec.shadow:
        if e.state == "entered":
            info = items.get((rec.name, e.k))
            out.append((id(e.mgr), info["line"] if info else None))
    return tuple(out)


def run_racing(ctx):
    import stackscope
    from stackscope import lowlevel, _lowlevel

    t = ctx.tape
    n = 1 + t.weighted([3, 1])
    tgs = []
    for i in range(n):
        if t.choose(3) == 0:
            ctx.stat("loop_template_targets")
            tgs.append(threads.Target(ctx, "T%d" % i, text=threads.loop_template(t)))
        else:
            tgs.append(threads.Target(ctx, "T%d" % i))
    ctx.case["programs"] = [tg.program for tg in tgs]
    ctx.case.pop("program", None)
    codes = instrumented_codes()
    names = dict((id(c), c.co_name) for c in codes)
    events = []
    state = {"snapshots": None, "rec": None, "progress": 0}

    def on_boundary(code, offset, kind):
        if state.get("skip", 0) > 0:
            # hand-overs start at a tape-chosen boundary of the call, so that late
            # windows (after the consistency loop) are reached as often as early ones
            state["skip"] -= 1
            return False
        nm0 = names.get(id(code))
        two = state.get("two")
        if two is not None:
            # >= 3.11, two-point mode: two hand-overs a few boundaries apart, at a tape-chosen place
            # of the call (a thread that loops comes back to the same instruction with another
            # stack depth in between: the checks that follow must not be fooled by that)
            state["bcount"] = state.get("bcount", 0) + 1
            if state["bcount"] - 1 not in two["at"]:
                return False
            live = [tg for tg in tgs if not tg.done]
            if not live:
                return False
            tg = live[t.choose(len(live))]
            nsteps = two["steps"][two["at"].index(state["bcount"] - 1)]
            for _ in range(nsteps):
                if tg.done:
                    break
                tg.step()
                state["progress"] += 1
                if state["snapshots"] is not None and state["rec"] is not None:
                    state["snapshots"].append(entered_managers(state["rec"]))
                    if state["rec"].done_frame():
                        state["snapshots"].append(())
            events.append((nm0 or "?", kind, nsteps, "two-point", state["bcount"] - 1))
            ctx.stat("two_point_handovers")
            ctx.cover(("race-two", observe.PY, nm0 or "?", kind, min(nsteps, 3)))
            return True
        tgt = state.get("target")
        if tgt is not None:
            # <= 3.10, targeted mode: exactly one hand-over, at a tape-chosen place of a tape-chosen
            # pass over the frame (before / inside / after the comprehension that copies the slots)
            if nm0 == state["passname"] and kind == "resume":
                state["pass"] = state.get("pass", 0) + 1
                state["phase"] = 0
                state["kcount"] = 0
            elif nm0 == "<listcomp>" and state.get("phase") == 0:
                state["phase"] = 1
                state["kcount"] = 0
            elif nm0 == state["passname"] and state.get("phase") == 1:
                state["phase"] = 2
                state["kcount"] = 0
            else:
                state["kcount"] = state.get("kcount", 0) + 1
            if (state.get("pass"), state.get("phase"), state.get("kcount")) != (tgt["pass"], tgt["phase"], tgt["k"]):
                return False
            state["target"] = None
            live = [tg for tg in tgs if not tg.done]
            if not live:
                return False
            tg = live[t.choose(len(live))]
            for _ in range(tgt["steps"]):
                if tg.done:
                    break
                tg.step()
                state["progress"] += 1
                if GUARD is not None and GUARD.log is not None:
                    GUARD.log.record()
                if state["snapshots"] is not None and state["rec"] is not None:
                    state["snapshots"].append(entered_managers(state["rec"]))
                    if state["rec"].done_frame():
                        state["snapshots"].append(())
            events.append((nm0 or "?", kind, tgt["steps"], "targeted", tgt["pass"], tgt["phase"], tgt["k"]))
            ctx.stat("targeted_handovers")
            ctx.cover(("race-target", observe.PY, tgt["pass"], tgt["phase"], min(tgt["k"], 3)))
            return True
        if kind == "resume" and offset <= 6 and names.get(id(code)) == "_parse_exception_table":
            # one call per attempt of the consistency loop (+ one after it)
            state["pet_starts"] = state.get("pet_starts", 0) + 1
        # the tape decides whether the inspected thread(s) make progress here
        # most boundaries pass quietly: a run should make real progress between hand-overs
        # (but the slot-reading loop of inspect_frame - its backward jumps - is where a
        # hand-over matters most, so boundaries there are much more likely to be taken)
        hot = kind == "backjump" and names.get(id(code)) == "inspect_frame"
        c = t.weighted([5, 4, 2, 1, 1] if hot else [60, 4, 2, 1, 1])
        if c == 0:
            return False
        live = [tg for tg in tgs if not tg.done]
        if not live:
            return False
        tg = live[t.choose(len(live))]
        for _ in range(c):
            if tg.done:
                break
            tg.step()
            state["progress"] += 1
            if GUARD is not None and GUARD.log is not None:
                GUARD.log.record()
            if state["snapshots"] is not None and state["rec"] is not None:
                # a frame that is off every thread's stack is either finished (no
                # blocks at all) or the suspended frame of a generator (its
                # blocks as the shadow says): both are positions it can be seen in
                state["snapshots"].append(entered_managers(state["rec"]))
                if state["rec"].done_frame():
                    state["snapshots"].append(())
        events.append((names.get(id(code), "?"), kind, c))
        ctx.stat("preempt_yields")
        ctx.cover(("race", observe.PY, names.get(id(code), "?"), kind, min(c, 3), tg.done))
        return True

    guard = GUARD
    new_layout = sys.version_info >= (3, 11)
    if guard is not None:
        if new_layout:
            from stackscope import _lowlevel_cpython_311 as impl
        else:
            from stackscope import _lowlevel_cpython_310 as impl
        from ..world import stackdepth

        def on_my_stack(fr):
            f = sys._getframe(1)
            while f is not None:
                if f is fr:
                    return True
                f = f.f_back
            return False

        guard.stale = []
        _lowlevel.inspect_frame(sys._getframe())  # the dispatcher replaces itself on first use
        real_inspect = impl.inspect_frame

        def watched_inspect(frame):
            # frames of this very thread cannot change under the inspecting code
            if on_my_stack(frame):
                return real_inspect(frame)
            if new_layout:
                prev = guard.frame
                guard.frame = frame
                try:
                    return real_inspect(frame)
                finally:
                    guard.frame = prev
            if guard.log is not None:
                return real_inspect(frame)
            guard.log = stackdepth.OwnershipLog(frame, impl.FrameObjectStart, frame_done)
            try:
                return real_inspect(frame)
            finally:
                guard.log.close()
                guard.log = None

        _lowlevel.inspect_frame = watched_inspect
        lowlevel.inspect_frame = watched_inspect

    def check_stale(what):
        if guard is not None and guard.stale:
            n = len(guard.stale)
            guard.stale = []
            raise Violation(
                "c07_stale_pointer_dereferenced",
                "%s: inspect_frame made %d read(s) through addresses (value-stack slots, or the InterpreterFrame header reached through an outdated pointer) that the inspected "
                "frame did not own (any more) at that moment (use after free / stale pointer; the harness withheld them)" % (what, n),
                {"events": events[-10:], "progress": state["progress"]},
            )

    try:
        for tg in tgs:
            tg.start()
        # bring the targets somewhere interesting first
        for _ in range(t.choose(8)):
            live = [tg for tg in tgs if not tg.done]
            if not live:
                break
            live[t.choose(len(live))].step()
        if guard is not None:
            # self-check of the static stack-depth computation on every suspended generator
            # frame of the worlds (there the interpreter does record the depth)
            for tg in tgs:
                for r in tg.W.frames:
                    fr = r.pyframe
                    if fr is not None and frame_done(fr):
                        if new_layout:
                            stackdepth.owned_slot_range(fr, impl)
                        else:
                            stackdepth.live_slots(fr, impl.FrameObjectStart, False)
        nobs = 2 + t.choose(5)
        for ob in range(nobs):
            live = [tg for tg in tgs if not tg.done]
            if not live:
                break
            tg = live[t.choose(len(live))]
            what = t.weighted([3, 3, 1])
            W = tg.W
            allowed = set(id(r.pyframe) for r in W.frames)
            others = set()
            for o in tgs:
                if o is not tg:
                    others.update(id(r.pyframe) for r in o.W.frames)
            state["progress"] = 0
            state["skip"] = t.choose(100) if t.choose(2) else 0
            state["target"] = None
            state["two"] = None
            if sys.version_info >= (3, 11) and t.choose(3) == 2:
                k1 = t.choose(50)
                state["two"] = {"at": [k1, k1 + 1 + t.choose(12)], "steps": [1 + t.choose(2), 1 + t.choose(2)]}
                state["bcount"] = 0
                state["skip"] = 0
            if sys.version_info < (3, 11) and t.choose(2) == 1:
                state["passname"] = "_inspect_frame" if "_inspect_frame" in names.values() else "inspect_frame"
                state["target"] = {"pass": 1 + t.weighted([1, 1, 2]), "phase": t.weighted([1, 2, 3]), "k": t.choose(6), "steps": 1 + t.choose(2)}
                state["pass"] = 0
                state["phase"] = None
                state["kcount"] = 0
                state["skip"] = 0
            if what == 0 or what == 2:
                # extract(thread) under pre-emption
                state["snapshots"] = None
                before_dead = tg.done
                with Preempt(codes, on_boundary, max_yields=max(1 + t.choose(4), 2 if state.get("two") else 1)) as pre:
                    try:
                        with warnings.catch_warnings():
                            warnings.simplefilter("ignore")
                            if what == 0:
                                st = stackscope.extract(tg.thread)
                            else:
                                fr0 = tg.stack()
                                world = [f for f in fr0 if W.rec_of(f) is not None]
                                st = stackscope.extract_since(world[0]) if world else stackscope.extract(tg.thread)
                    except Exception as e:
                        raise Violation("c07_racing_extract_raised", "extract raised %r while the target was racing" % (e,), {"events": events[-10:]})
                ctx.stat("racing_extractions")
                check_stale("extract(thread)")
                if tg.done and not before_dead:
                    ctx.stat("thread_exited_during_extract")
                # frames created later by the same thread are fine too
                allowed = set(id(r.pyframe) for r in W.frames)
                for f in st.frames:
                    pf = f.pyframe
                    if id(pf) in others:
                        raise Violation("c07_racing_foreign_frame", "extract(thread %s) reported a frame of another thread: %s" % (tg.name, pf.f_code.co_name), {"events": events[-10:]})
                    if pf.f_code.co_filename.startswith("<vsim") and id(pf) not in allowed:
                        raise Violation("c07_racing_unknown_frame", "reported frame %s is not one the thread created" % pf.f_code.co_name, {})
                ctx.log("R", what, len(st.frames), st.error is not None, state["progress"])
            else:
                # direct low-level snapshot of one frame of the running thread
                fr0 = [f for f in tg.stack() if W.rec_of(f) is not None]
                if not fr0:
                    continue
                fr = fr0[t.choose(len(fr0))]
                if t.choose(4) == 3:
                    # ... or the suspended frame of a generator the thread is in the middle of (a
                    # generator-based manager between enter and exit): the thread may resume it
                    # while it is being looked at
                    from ..world import stackdepth as _sd

                    susp = [r.pyframe for r in W.frames if r.pyframe is not None and frame_done(r.pyframe) and _sd._owned_by_live_generator(r.pyframe)]
                    if susp:
                        fr = susp[t.choose(len(susp))]
                        ctx.stat("suspended_generator_frames_inspected")
                rec = W.rec_of(fr)
                susp_at_start = frame_done(fr)
                if susp_at_start:
                    # "no blocks" is right only once the generator has really finished
                    from ..world import stackdepth as _sd2

                    rec.done_frame = lambda rec=rec, fr=fr: frame_done(fr) and not _sd2._owned_by_live_generator(fr)
                else:
                    rec.done_frame = lambda rec=rec, fr=fr: frame_done(fr)
                state["rec"] = rec
                state["snapshots"] = [entered_managers(rec)]
                with_info = _lowlevel.analyze_with_blocks(fr.f_code)
                res = None
                state["pet_starts"] = 0
                with Preempt(codes, on_boundary, max_yields=max(1 + t.choose(4), 2 if state.get("two") else 1)) as pre:
                    try:
                        res = lowlevel.inspect_frame(fr)
                    except Exception as e:
                        ctx.stat("snapshot_rejected")
                        if "consistent" in str(e):
                            ctx.stat("retry_loop_exhausted")
                check_stale("inspect_frame(frame of running thread)")
                if state.get("pet_starts", 0) > 2:
                    ctx.stat("retry_loop_taken")
                snaps = state["snapshots"]
                state["snapshots"] = None
                state["rec"] = None
                if res is not None:
                    try:
                        has_lines = bool(getattr(W.prog, "items", None))
                        got = tuple(
                            (id(res.stack[b.level - 1].__self__), with_info[b.handler].start_line if has_lines else None)
                            for b in res.blocks
                            if b.handler in with_info
                        )
                    except Exception as e:
                        raise Violation(
                            "c07_inconsistent_snapshot",
                            "inspect_frame returned blocks/stack that do not fit together: %r (progress during the call: %d steps)" % (e, state["progress"]),
                            {"events": events[-10:]},
                        )
                    if got not in snaps:
                        raise Violation(
                            "c07_inconsistent_snapshot",
                            "inspect_frame returned a snapshot naming %d managers that matches none of the %d positions the target occupied during the call"
                            % (len(got), len(snaps)),
                            {"events": events[-10:], "progress": state["progress"]},
                        )
                    if len(snaps) > 1:
                        ctx.stat("snapshot_accepted_while_target_moved")
                if state["progress"] and frame_done(fr):
                    ctx.stat("target_frame_returned_during_inspect")
                ctx.log("I", res is not None, len(snaps), state["progress"])
        ctx.case["events"] = events[:60]
    finally:
        if guard is not None:
            guard.log = None
            guard.frame = None
            _lowlevel.inspect_frame = real_inspect
            lowlevel.inspect_frame = real_inspect
            ctx.stat("casts_checked", guard.checked)
            guard.checked = 0
            from ..world import stackdepth as _sd

            ctx.stat("static_depth_self_checks", _sd.SELF_CHECKS[0])
            _sd.SELF_CHECKS[0] = 0
        for tg in tgs:
            tg.finish()
    ctx.sample = {"programs": [tg.program for tg in tgs][:1], "events": events[:30]}


def frame_done(fr):
    """Has this frame finished executing?  (no longer on any thread's stack)"""
    for top in sys._current_frames().values():
        f = top
        while f is not None:
            if f is fr:
                return False
            f = f.f_back
    return True


def run(ctx):
    was = gc.isenabled()
    gc.disable()
    try:
        if ctx.params.get("mode") == "blocked":
            run_blocked(ctx)
        else:
            run_racing(ctx)
    finally:
        if was:
            gc.enable()

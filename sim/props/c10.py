"""C10 - frame hooks: unwrap to a fixpoint; elaborate_frame edits only the inward rest.

World: synthetic stack-item types T0..T5 and 8 suspended one-line generators
(distinct code objects).  A tape-drawn table gives each type's unwrap result
and, per code object, a finite *script* of elaborate results (consumed one per
invocation, then None), so every extraction terminates unless the 100-step
guard is what is being exercised.  Oracle: a tree reference model of the
documented rules.
"""
import sys
import types

from ..kernel import Violation, Skip

PROPERTY = "C10"
LEVEL = "exploration"
RULE = (
    "one case = a tape-drawn unwrap table over 6 synthetic item types + per-code scripts of "
    "elaborate_frame results (None/PRUNE/()/replace/insert-before-next_inner) and a root item; "
    "extract(root) is compared with a tree reference model. distinct = distinct "
    "(sequence of elaborate actions actually taken with relative depths, leaf shape, error flag) signatures; "
    "non-trivial = at least one non-None elaborate result or a guard trip"
)
ASSUMPTIONS = [
    "hook results are drawn from the documented result forms only (no nested sequences, no raising hooks: those are C05)",
    "cycles in unwrap tables are single-successor cycles (a fan-out cycle makes 2^100 leaves before the guard ends each path)",
    "a non-frame irreducible item followed by frames makes everything from it on the leaf (list): taken from the code, the docs are silent",
]
REAL_VS_STUB = {
    "real": ["stackscope.extract / extract_iter / unwrap_stackitem / elaborate_frame / code_dispatch / FrameIterator", "CPython generator frames"],
    "stub": ["synthetic item types T0..T5", "table-driven hooks", "tree reference model (oracle)"],
}
RARE_PROBES = ["next_inner_was_deeper", "guard_tripped", "prune_inside_inserted", "insert_on_innermost", "iterator_result", "leaf_list"]
LEGS = [
    {"name": "model312", "python": "3.12", "quick": 60000, "thorough": 1500000, "quick_s": 40, "thorough_s": 420,
     "run_timeout": 20, "hang_is_violation": True},
    {"name": "model39", "python": "3.9", "quick": 15000, "thorough": 300000, "quick_s": 30, "thorough_s": 240,
     "run_timeout": 20, "hang_is_violation": True},
]

NT = 6
NG = 8

_state = {}


class Item(object):
    __slots__ = ("n",)

    def __init__(self, n):
        self.n = n

    def __repr__(self):
        return "%s#%d" % (type(self).__name__, self.n)


TYPES = [type("T%d" % i, (Item,), {"__slots__": ()}) for i in range(NT)]


def setup(leg, params):
    import stackscope
    from stackscope import _customization as cust

    gens = []
    for i in range(NG):
        ns = {}
        exec(compile("def g%d():\n    yield %d\n" % (i, i), "<c10-g%d>" % i, "exec"), ns)
        g = ns["g%d" % i]()
        next(g)
        gens.append(g)
    _state["gens"] = gens
    _state["frames"] = [g.gi_frame for g in gens]
    _state["table"] = None
    _state["scripts"] = None
    _state["calls"] = None

    def make_unwrap(i):
        def unwrap(item):
            return _state["unwrap"](i, item)

        return unwrap

    for i, T in enumerate(TYPES):
        cust.unwrap_stackitem.register(T, make_unwrap(i))

    def make_elab(k):
        def elab(frame, next_inner):
            return _state["elab"](k, frame, next_inner)

        return elab

    for k, g in enumerate(gens):
        cust.elaborate_frame.register(g.gi_code, make_elab(k))


# ---- case generation ----------------------------------------------------
# An "item spec" is ("T", i) | ("G", k) | None


def gen_itemspec(tape, lo, allow_none=True):
    c = tape.weighted([4, 4, 1] if allow_none else [4, 4])
    if c == 0:
        return ("G", tape.choose(NG))
    if c == 1:
        # prefer forward references (acyclic); backward ones only via explicit cycle option
        if lo >= NT:
            return ("G", tape.choose(NG))
        return ("T", lo + tape.choose(NT - lo))
    return None


def gen_case(tape):
    table = []
    for i in range(NT):
        # result kinds: 0 single item, 1 tuple, 2 list, 3 iterator, 4 empty, 5 None(irreducible), 6 self-cycle, 7 back-cycle
        kind = tape.weighted([5, 5, 3, 3, 1, 1, 1, 1])
        if kind == 0:
            table.append(("single", [gen_itemspec(tape, i + 1, allow_none=False)]))
        elif kind in (1, 2, 3):
            n = 1 + tape.choose(3)
            items = [gen_itemspec(tape, i + 1) for _ in range(n)]
            table.append((("tuple", "list", "iter")[kind - 1], items))
        elif kind == 4:
            table.append(("tuple", []))
        elif kind == 5:
            table.append(("none", []))
        elif kind == 6:
            table.append(("single", [("T", i)]))
        else:
            table.append(("single", [("T", tape.choose(i + 1))]))
    # cycles must be single-successor chains without frames inside (a cycle with
    # fan-out or with a frame in it never trips the guard: not in the quantifier)
    def reach(a):
        seen = set()
        todo = [x[1] for x in table[a][1] if x is not None and x[0] == "T"]
        while todo:
            b = todo.pop()
            if b in seen:
                continue
            seen.add(b)
            todo.extend(x[1] for x in table[b][1] if x is not None and x[0] == "T")
        return seen

    reaches = [reach(a) for a in range(NT)]
    cyclic = set(a for a in range(NT) if a in reaches[a])
    new = {}
    for a in sorted(cyclic):
        succ = [x for x in table[a][1] if x is not None and x[0] == "T" and (x[1] == a or a in reaches[x[1]])]
        new[a] = ("single", [succ[0]])
    for a in new:
        table[a] = new[a]
    scripts = []
    for k in range(NG):
        script = []
        n = tape.weighted([6, 3, 2, 1])
        for _ in range(n):
            # 0 None, 1 PRUNE, 2 (), 3 replace-single, 4 replace-seq, 5 insert, 6 replace by list
            a = tape.weighted([2, 3, 1, 2, 2, 4, 1])
            if a == 0:
                script.append(("none",))
            elif a == 1:
                script.append(("prune",))
            elif a == 2:
                script.append(("empty",))
            elif a == 3:
                script.append(("replace1", [gen_itemspec(tape, 0, allow_none=False)]))
            elif a in (4, 6):
                m = 1 + tape.choose(3)
                script.append(("replaceN" if a == 4 else "replaceL", [gen_itemspec(tape, 0, allow_none=False) for _ in range(m)]))
            else:
                m = tape.choose(3)
                script.append(("insert", [gen_itemspec(tape, 0, allow_none=False) for _ in range(m)]))
        scripts.append(script)
    root = gen_itemspec(tape, 0, allow_none=False)
    with_contexts = tape.choose(2) == 1
    return table, scripts, root, with_contexts


# ---- real world -----------------------------------------------------------


def materialise(spec, counter):
    if spec is None:
        return None
    if spec[0] == "G":
        return _state["frames"][spec[1]]
    counter[0] += 1
    return TYPES[spec[1]](counter[0])


def run_real(table, scripts, root, with_contexts, ctx):
    import stackscope
    from stackscope._customization import FrameIterator, PRUNE

    counter = [0]
    calls = [0] * NG
    actions = []

    def unwrap(i, item):
        kind, specs = table[i]
        ctx.stat("unwrap_calls")
        if kind == "none":
            return None
        items = [materialise(s, counter) for s in specs]
        if kind == "single":
            if specs[0] == ("T", i):
                return item  # genuine self cycle: the same object
            return items[0]
        if kind == "tuple":
            return tuple(items)
        if kind == "list":
            return items
        ctx.stat("iterator_result")
        return FrameIterator(iter(items))

    def elab(k, frame, next_inner):
        n = calls[k]
        calls[k] += 1
        script = scripts[k]
        if n >= len(script):
            return None
        act = script[n]
        actions.append(act[0])
        if act[0] == "none":
            return None
        if act[0] == "prune":
            return PRUNE
        if act[0] == "empty":
            return []
        items = [materialise(s, counter) for s in act[1]]
        if act[0] == "replace1":
            return items[0]
        if act[0] == "replaceN":
            return tuple(items)
        if act[0] == "replaceL":
            return items
        if next_inner is None:
            ctx.stat("insert_on_innermost")
        return tuple(items) + (next_inner,)

    _state["unwrap"] = unwrap
    _state["elab"] = elab
    rootobj = materialise(root, counter)
    try:
        st = stackscope.extract(rootobj, with_contexts=with_contexts)
    except Exception as e:
        raise Violation(
            "extract_raised",
            "extract raised %s: %s" % (type(e).__name__, e),
            {"exception": repr(e)},
        )
    frames = []
    fr = _state["frames"]
    for f in st.frames:
        frames.append(fr.index(f.pyframe))
    return frames, norm_leaf(st.leaf), st.error, actions


def norm_one(x):
    import stackscope

    if x is None:
        return None
    if isinstance(x, stackscope.Frame):
        return ("G", _state["frames"].index(x.pyframe))
    if isinstance(x, types.FrameType):
        return ("G", _state["frames"].index(x))
    if isinstance(x, Item):
        return ("T", TYPES.index(type(x)))
    return ("?", repr(x))


def norm_leaf(leaf):
    if isinstance(leaf, list):
        return [norm_one(x) for x in leaf]
    return norm_one(leaf)


# ---- reference model --------------------------------------------------------
#
# Documented rules (customizing.rst, docstrings of unwrap_stackitem /
# elaborate_frame / PRUNE, and the comment on `depth` in extract_iter):
#  * every item is unwrapped until only frames and irreducible items remain; an
#    item reached through n layers of unwrapping has depth n; None elements of
#    an unwrap result are skipped;
#  * elaborate_frame(F, next_inner) -> None keeps the rest; PRUNE / () removes
#    what follows F as long as it is at least as deep as F (the items logically
#    inward of F) and stops at the first shallower item; a replacement does the
#    same and then puts its items (depth of F) in that place; a sequence ending
#    in next_inner only inserts its other items (depth of F) before next_inner,
#    which stays where it was and becomes no deeper than F (so a PRUNE from inside
#    the inserted items stops at it, the use the Trio thread glue makes of this form);
#  * 100 unwraps in a row without reaching a frame or an irreducible item give an
#    error and make the current item irreducible.
# The model is a flat list of (spec, depth) built by a recursive expansion; it
# shares no code or data structure with extract_iter's two deques.


def model(table, scripts, root, ctx):
    errors = [0]
    budget = [0]

    def expand(spec, depth, chain):
        budget[0] += 1
        if budget[0] > 20000:
            raise Skip()
        if spec[0] == "G":
            return [(spec, depth)], 0
        kind, specs = table[spec[1]]
        if kind == "none":
            return [(spec, depth)], 0
        chain += 1
        if chain > 100:
            errors[0] += 1
            ctx.stat("guard_tripped")
            return [(spec, depth)], 0
        out = []
        for s in specs:
            if s is None:
                continue
            leaves, chain = expand(s, depth + 1, chain)
            out.extend(leaves)
        return out, chain

    def expand_seq(specs, depth):
        out = []
        chain = 0
        for s in specs:
            leaves, chain = expand(s, depth, chain)
            out.extend(leaves)
        return out

    pending = expand_seq([root], 0)
    calls = [0] * NG
    frames = []
    sig = []
    inserted = set()  # ids of pending entries produced by an elaborate hook
    while pending:
        spec, d = pending[0][0], pending[0][1]
        if spec[0] != "G":
            rest = [p[0] for p in pending]
            if len(rest) > 1:
                ctx.stat("leaf_list")
                return frames, rest, errors[0] > 0, tuple(sig)
            return frames, rest[0], errors[0] > 0, tuple(sig)
        head = pending.pop(0)
        k = spec[1]
        frames.append(k)
        n = calls[k]
        calls[k] += 1
        script = scripts[k]
        if n >= len(script):
            continue
        act = script[n]
        if act[0] == "none":
            continue
        if act[0] == "insert":
            new = expand_seq(act[1], d)
            new = [(s, dd, "ins") for (s, dd) in new]
            sig.append(("insert", len(new), len(pending), pending[0][1] - d if pending else None))
            if pending and pending[0][1] > d:
                # the inserted items sit between F and next_inner: next_inner is no
                # deeper than F (a PRUNE from inside the inserted items stops at it);
                # if it was shallower it stays shallower (its own PRUNE reaches its callees)
                ctx.stat("next_inner_was_deeper")
                pending[0] = (pending[0][0], d) + tuple(pending[0][2:])
            pending[0:0] = new
            continue
        removed = 0
        while pending and pending[0][1] >= d:
            pending.pop(0)
            removed += 1
        if len(head) == 3 and removed:
            ctx.stat("prune_inside_inserted")
        new = []
        if act[0] not in ("prune", "empty"):
            new = [(s, dd, "ins") for (s, dd) in expand_seq(act[1], d)]
        sig.append((act[0], removed, len(new), len(pending)))
        pending[0:0] = new
    return frames, None, errors[0] > 0, tuple(sig)


def run(ctx):
    tape = ctx.tape
    table, scripts, root, with_contexts = gen_case(tape)
    ctx.case = {
        "unwrap_table": dict(("T%d" % i, [table[i][0], table[i][1]]) for i in range(NT)),
        "elaborate_scripts": dict(("g%d" % k, scripts[k]) for k in range(NG) if scripts[k]),
        "root": root,
        "with_contexts": with_contexts,
    }
    m_frames, m_leaf, m_err, sig = model(table, scripts, root, ctx)
    r_frames, r_leaf, r_err, actions = run_real(table, scripts, root, with_contexts, ctx)
    m_leaf_n = m_leaf
    if isinstance(m_leaf, list):
        m_leaf_n = [tuple(x) for x in m_leaf]
    elif m_leaf is not None:
        m_leaf_n = tuple(m_leaf)
    r_leaf_n = r_leaf
    if isinstance(r_leaf, list):
        r_leaf_n = [tuple(x) if x is not None else None for x in r_leaf]
    ctx.log("frames", tuple(r_frames), repr(r_leaf_n), r_err is not None)
    ctx.stat("elaborate_actions", len(actions))
    if sig or m_err:
        ctx.cover(repr((sig, isinstance(m_leaf, list), m_leaf is None, m_err)))
    ctx.sample = dict(ctx.case, result_frames=r_frames, result_leaf=repr(r_leaf_n))
    if m_err:
        # Once the 100-step guard has tripped, the item it tripped on is irreducible
        # only by decree: the real code unwraps it again whenever a hook redirects the
        # rest (its depth drifts by 100 each time), so frames/leaf after that point are
        # not determined by the documented rules.  Only: error reported, no hang, no raise.
        if r_err is None:
            ctx.violate("error_flag_differs", "the 100-step guard tripped in the model but Stack.error is None")
        return
    if r_frames != m_frames:
        ctx.violate(
            "frames_differ_from_model",
            "extract(root).frames = %r but the documented rules give %r" % (r_frames, m_frames),
            real=r_frames, model=m_frames,
        )
    if m_err:
        # which item of a cycle ends up as the leaf is not specified (and an
        # irreducible item is unwrapped again whenever a hook redirects the rest)
        if (r_leaf_n is None) != (m_leaf_n is None):
            ctx.violate("leaf_differs_from_model", "leaf %r vs model %r" % (r_leaf_n, m_leaf_n), real=r_leaf_n, model=m_leaf_n)
    elif r_leaf_n != m_leaf_n:
        ctx.violate("leaf_differs_from_model", "leaf %r vs model %r" % (r_leaf_n, m_leaf_n), real=r_leaf_n, model=m_leaf_n)
    if (r_err is not None) != m_err:
        ctx.violate(
            "error_flag_differs",
            "Stack.error = %r but the model says error=%r" % (r_err, m_err),
            real=repr(r_err), model=m_err,
        )
    if m_err and "unwrapped more than 100 times" not in str(getattr(r_err, "exceptions", [r_err])[0]) and "unwrapped more than 100 times" not in str(r_err):
        ctx.violate("guard_error_missing", "expected the 100-step guard error, got %r" % (r_err,))

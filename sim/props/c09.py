"""C09 on the program world (see sim/world/observe.py: check_c09)."""
from ..world import progworld

PROPERTY = "C09"
LEVEL = "exploration"
RULE = "generated programs of the program world (see C01), observed at every suspension and from probes; see DESIGN.md section 5"
ASSUMPTIONS = ["same program world as C01/C02"]
REAL_VS_STUB = {"real": ["stackscope", "CPython of each leg", "contextlib"], "stub": ["generated programs", "shadow managers", "driver"]}
RARE_PROBES = ["c09_prior_fault_fired"]
LEGS = [
    {"name": "w312", "python": "3.12", "quick": 5000, "thorough": 120000, "quick_s": 50, "thorough_s": 420},
    {"name": "w311", "python": "3.11", "quick": 2000, "thorough": 50000, "quick_s": 40, "thorough_s": 300},
    {"name": "w310", "python": "3.10", "quick": 2000, "thorough": 50000, "quick_s": 40, "thorough_s": 300},
    {"name": "w39", "python": "3.9", "quick": 2000, "thorough": 50000, "quick_s": 40, "thorough_s": 300},
]


def run(ctx):
    nameless = ctx.tape.choose(4) == 3
    if nameless:
        ctx.stat("runs_with_nameless_exit_callables")
    progworld.run_program(ctx, ["c09"], force={"gcm": True, "es": True, "nameless_exit": nameless})

"""C01 - contexts of a suspended frame are exactly the entered-not-exited managers."""
from ..world import progworld

PROPERTY = "C01"
LEVEL = "exploration"
RULE = (
    "one case = a tape-generated module (1-4 functions: coroutines, generators, async generators, generator-based managers; "
    "with/async with 1-3 items, try/except/else/finally, for/while, if, match, every leave kind) driven by a tape-chosen "
    "schedule of send/throw/close; at every suspension extract(root) and lowlevel.contexts_active_in_frame are compared with the "
    "shadow the managers keep themselves. distinct = (python, opcode 5-gram around f_lasti, #active, exiting?) of every observed frame"
)
ASSUMPTIONS = [
    "managers are the generated kinds (plain/inherited classes, sync+async, @contextmanager/@asynccontextmanager functions, ExitStack/AsyncExitStack subclasses, Lock/RLock/nullcontext)",
    "shadow marks are placed so that no observation point lies between a mark and the real boundary (enter returned / exit called / exit returned)",
]
REAL_VS_STUB = {
    "real": ["stackscope (all of it)", "CPython compiler+interpreter of each leg", "contextlib"],
    "stub": ["generated programs", "shadow-reporting managers", "driver loop in place of an event loop", "exceptiongroup stub on 3.9/3.10 (unused here)"],
}
RARE_PROBES = ["trap_in_exit", "trap_in_enter", "exception_path_exit", "exit_swallows", "close_at_suspension", "throw_at_suspension", "athrow", "aclose"]
LEGS = [
    {"name": "prog312", "python": "3.12", "quick": 6000, "thorough": 160000, "quick_s": 50, "thorough_s": 420},
    {"name": "prog311", "python": "3.11", "quick": 2500, "thorough": 60000, "quick_s": 40, "thorough_s": 300},
    {"name": "prog310", "python": "3.10", "quick": 2500, "thorough": 60000, "quick_s": 40, "thorough_s": 300},
    {"name": "prog39", "python": "3.9", "quick": 2500, "thorough": 60000, "quick_s": 40, "thorough_s": 300},
]


def run(ctx):
    # in a quarter of the runs some managers provide their exit method as a staticmethod
    # (finding F23 / known finding K2)
    unbound = ctx.tape.choose(4) == 3
    if unbound:
        ctx.stat("runs_with_unbound_exit_managers")
    progworld.run_program(ctx, ["c01"], force={"probe": False, "unbound_exit": unbound}, probe=False)

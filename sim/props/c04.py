"""C04 - running-stack extraction and StackSlice slicing equal slices of the true stack.

Weak fit, said plainly: a pure function of (stack, outer, inner, limit); claimed
as a snapshot invariant over the states the greenlet simulation reaches.
"""
import gc
import sys
import warnings

from ..kernel import Violation

PROPERTY = "C04"
LEVEL = "exploration"
RULE = (
    "states = the greenlet world of C15 (call depth 1-8 split over 0-4 nested greenlets, plain functions and running generators in the stack); at every `slices` action of the current greenlet the "
    "true stack T is rebuilt from interpreter ground truth (f_back chain of the caller, continued at each greenlet parent's gr_frame) and 8 tape-drawn (outer, inner, limit) triples with outer/inner in T or None and limit in "
    "{None, 1..len(T)+1} are extracted through StackSlice, extract_since and extract_until (int and frame limits); results must be the contiguous sub-list the documentation defines; an anchor that is not on the stack "
    "(frame of a suspended generator) must give exactly [outer] plus an error. distinct = (greenlet nesting, outer class, inner class, limit class, api) cells: sampling, not the cross product"
)
ASSUMPTIONS = ["T is computed in the very frame that calls extract, so T ends with the caller and contains none of stackscope's frames", "3.12 only (greenlet); without greenlets the same triples run on the plain thread stack (3.9 leg)"]
REAL_VS_STUB = {"real": ["unwrap_stackslice, get_true_caller, extract_since, extract_until", "greenlet"], "stub": ["director-driven greenlet tree", "documented slicing rule as oracle"]}
RARE_PROBES = ["offstack_anchor", "frame_limit", "int_limit", "inside_nested_greenlet", "other_thread_anchor", "other_thread_running_generator"]
LEGS = [
    {"name": "slice312", "python": "3.12", "quick": 8000, "thorough": 200000, "quick_s": 45, "thorough_s": 400, "run_timeout": 60, "params": {"glets": True}},
    {"name": "slice39", "python": "3.9", "quick": 6000, "thorough": 100000, "quick_s": 30, "thorough_s": 300, "run_timeout": 60, "params": {"glets": False}},
    {"name": "other312", "python": "3.12", "quick": 1500, "thorough": 40000, "quick_s": 30, "thorough_s": 300, "run_timeout": 60, "params": {"other": True}},
    {"name": "other310", "python": "3.10", "quick": 1000, "thorough": 30000, "quick_s": 25, "thorough_s": 250, "run_timeout": 60, "params": {"other": True}},
]


def true_stack(me, getparent):
    """Outermost first, ending with `me`. getparent() -> list of ancestor greenlets (innermost first) or []."""
    T = []
    fr = me
    while fr is not None:
        T.append(fr)
        fr = fr.f_back
    for g in getparent():
        fr = g.gr_frame
        while fr is not None:
            T.append(fr)
            fr = fr.f_back
    T.reverse()
    return T


def pf(st):
    return [f.pyframe for f in st.frames]


def names(frames):
    return [f.f_code.co_name for f in frames]


def slices_here(ctx, t, ancestors, nested):
    """Must be called so that this function's frame is the caller of every extract below."""
    import stackscope
    from stackscope import StackSlice

    me = sys._getframe(0)
    T = true_stack(me, ancestors)
    n = len(T)
    if nested:
        ctx.stat("inside_nested_greenlet")

    def gen():
        yield 1

    # Frames are picked relative to the harness's `execute` frame (three frames outward of it at
    # most): how deep the harness itself is nested below that differs between a batch worker, a
    # replay and the shrinker, and one tape must mean the same case in all three.
    base = 0
    for k, fr in enumerate(T):
        if fr.f_code.co_name == "execute" and fr.f_code.co_filename.endswith("worker.py"):
            base = k
    lowest = max(base - 3, 0)
    m = n - lowest

    for _ in range(8):
        api = t.choose(4)  # 0 StackSlice, 1 extract_since, 2 extract_until int, 3 extract_until frame
        oi = lowest + t.choose(m + 1)
        ii = lowest + t.choose(m + 1)
        outer = T[oi] if oi < n else None
        inner = T[ii] if ii < n else None
        lim = t.choose(m + 3)
        limit = None if lim == 0 else lim
        if outer is not None and inner is not None and oi > ii:
            outer, inner, oi, ii = inner, outer, ii, oi
        offstack = t.choose(12) == 0
        with warnings.catch_warnings():
            warnings.simplefilter("ignore")
            if offstack:
                ctx.stat("offstack_anchor")
                g = gen()
                next(g)
                st = stackscope.extract_since(g.gi_frame, with_contexts=False)
                got = pf(st)
                if len(got) != 1 or got[0] is not g.gi_frame or st.error is None:
                    raise Violation("c04_offstack_anchor", "extract_since(frame of a suspended generator) -> frames %r error %r" % (names(got), st.error), {})
                continue
            if api == 0:
                st = stackscope.extract(StackSlice(outer=outer, inner=inner, limit=limit), with_contexts=False)
                lo = oi if outer is not None else 0
                hi = ii if inner is not None else n - 1
                exp = T[lo : hi + 1]
                if limit is not None and len(exp) > limit:
                    if inner is None and outer is not None:
                        exp = exp[:limit]
                    else:
                        exp = exp[-limit:]
                desc = "StackSlice(outer=%s, inner=%s, limit=%r)" % (oi if outer is not None else None, ii if inner is not None else None, limit)
            elif api == 1:
                st = stackscope.extract_since(outer, with_contexts=False)
                exp = T[oi:] if outer is not None else list(T)
                desc = "extract_since(#%s)" % (oi if outer is not None else None)
            elif api == 2:
                if inner is None:
                    inner, ii = me, n - 1
                ctx.stat("int_limit")
                st = stackscope.extract_until(inner, limit=limit, with_contexts=False)
                exp = T[: ii + 1]
                if limit is not None and len(exp) > limit:
                    exp = exp[-limit:]
                desc = "extract_until(#%d, limit=%r)" % (ii, limit)
            else:
                if inner is None:
                    inner, ii = me, n - 1
                # frame-valued limit: a frame reachable from inner by f_back
                reach = []
                fr = inner
                while fr is not None:
                    reach.append(fr)
                    fr = fr.f_back
                lf = reach[t.choose(min(len(reach), ii - lowest + 1))]
                li = T.index(lf)
                ctx.stat("frame_limit")
                st = stackscope.extract_until(inner, limit=lf, with_contexts=False)
                exp = T[li : ii + 1]
                desc = "extract_until(#%d, limit=frame #%d)" % (ii, li)
        got = pf(st)
        ctx.cover(("c04", api, nested, cls(oi, n, outer), cls(ii, n, inner), "none" if limit is None else ("ge" if limit >= len(T) else "lt")))
        ctx.log("slice", desc, len(got), len(exp))
        if st.error is not None:
            raise Violation("c04_error", "%s on a stack of %d frames: error %r" % (desc, n, st.error), {"call": desc})
        if len(got) != len(exp) or any(a is not b for a, b in zip(got, exp)):
            raise Violation(
                "c04_wrong_slice",
                "%s on the stack %r returned %r, the documented slice is %r" % (desc, names(T), names(got), names(exp)),
                {"call": desc, "stack": names(T)},
            )
        for f in st.frames:
            if (f.modname or "").startswith("stackscope.") or f.modname == "stackscope":
                raise Violation("c04_own_frames", "stackscope's own frame %s in the result" % f.funcname, {})


def cls(i, n, fr):
    if fr is None:
        return "none"
    if i == 0:
        return "first"
    if i == n - 1:
        return "last"
    return "mid"


def on_slices(gw, rec):
    def ancestors():
        out = []
        g = rec.glet.parent
        while g is not None:
            out.append(g)
            g = g.parent
        return out

    slices_here(gw.ctx, gw.t, ancestors, rec is not gw.main)


def plain_levels(ctx, t, depth, kinds):
    if depth <= 0:
        return slices_here(ctx, t, lambda: [], False)
    if kinds[depth % len(kinds)] == 1:
        def g():
            plain_levels(ctx, t, depth - 1, kinds)
            yield 1

        for _ in g():
            pass
        return None
    return plain_levels(ctx, t, depth - 1, kinds)


def other_thread(ctx):
    """The documented second use of StackSlice: `outer` (and `inner`) are frames that are running on
    ANOTHER thread, which stays parked in a direct C call (lock.acquire) for the whole run, so its
    stack is one fixed list T. The inspecting thread is the only one that moves: no real scheduling
    decision is left open. Oracle = the same documented slicing rule as on the own stack."""
    import threading
    import time

    import stackscope
    from stackscope import StackSlice

    t = ctx.tape
    depth = 1 + t.choose(7)
    kinds = [t.choose(2) for _ in range(3)]
    ctx.case["depth"] = depth
    ctx.case["kinds"] = kinds
    gate = threading.Lock()
    gate.acquire()
    flag = []
    gens = []

    def park():
        flag.append(sys._getframe(0))
        gate.acquire()

    def levels(d):
        if d <= 0:
            return park()
        if kinds[d % len(kinds)] == 1:
            def g():
                levels(d - 1)
                yield 1

            it = g()
            gens.append(it)
            for _ in it:
                pass
            return None
        return levels(d - 1)

    def target():
        levels(depth)

    th = threading.Thread(target=target, name="vsim-c04-other", daemon=True)
    th.start()
    try:
        spins = 0
        while not flag:
            time.sleep(0.0002)
            spins += 1
            if spins > 50000:
                raise RuntimeError("harness: parked thread never arrived")
        inner_most = sys._current_frames()[th.ident]
        if inner_most is not flag[0]:
            raise RuntimeError("harness: parked thread is not in park()")
        T = []
        fr = inner_most
        while fr is not None:
            T.append(fr)
            fr = fr.f_back
        T.reverse()
        first = [k for k, f in enumerate(T) if f.f_code.co_name == "target"][0]
        T = T[first:]
        n = len(T)
        for _ in range(8):
            api = t.choose(4)  # 0 StackSlice(outer[,limit]), 1 StackSlice(outer, inner, limit), 2 extract_since, 3 extract(running generator)
            oi = t.choose(n)
            ii = t.choose(n)
            lim = t.choose(n + 3)
            limit = None if lim == 0 else lim
            with warnings.catch_warnings():
                warnings.simplefilter("ignore")
                if api == 0:
                    st = stackscope.extract(StackSlice(outer=T[oi], limit=limit), with_contexts=False)
                    exp = T[oi:]
                    if limit is not None:
                        exp = exp[:limit]
                    desc = "StackSlice(outer=#%d on another thread, limit=%r)" % (oi, limit)
                elif api == 1:
                    if oi > ii:
                        oi, ii = ii, oi
                    st = stackscope.extract(StackSlice(outer=T[oi], inner=T[ii], limit=limit), with_contexts=False)
                    exp = T[oi : ii + 1]
                    if limit is not None and len(exp) > limit:
                        exp = exp[-limit:]
                    desc = "StackSlice(outer=#%d, inner=#%d on another thread, limit=%r)" % (oi, ii, limit)
                elif api == 2:
                    st = stackscope.extract_since(T[oi], with_contexts=False)
                    exp = T[oi:]
                    desc = "extract_since(#%d on another thread)" % oi
                else:
                    if not gens:
                        continue
                    it = gens[t.choose(len(gens))]
                    st = stackscope.extract(it, with_contexts=False)
                    exp = T[T.index(it.gi_frame) :]
                    desc = "extract(generator running on another thread)"
                    ctx.stat("other_thread_running_generator")
            got = pf(st)
            ctx.stat("other_thread_anchor")
            ctx.cover(("c04o", api, cls(oi, n, T[oi]), cls(ii, n, T[ii]), "none" if limit is None else ("ge" if limit >= n else "lt")))
            ctx.log("slice", desc, len(got), len(exp))
            if st.error is not None:
                raise Violation("c04_error", "%s on a stack of %d frames: error %r" % (desc, n, st.error), {"call": desc})
            if len(got) != len(exp) or any(a is not b for a, b in zip(got, exp)):
                raise Violation(
                    "c04_wrong_slice",
                    "%s on the stack %r returned %r, the documented slice is %r" % (desc, names(T), names(got), names(exp)),
                    {"call": desc, "stack": names(T)},
                )
        ctx.sample = {"depth": depth, "generator_levels": kinds, "other_thread": True}
    finally:
        gate.release()
        th.join(5)


def run(ctx):
    was = gc.isenabled()
    gc.disable()
    try:
        if ctx.params.get("other"):
            other_thread(ctx)
        elif ctx.params.get("glets"):
            from ..world import glets

            gw = glets.GWorld(ctx.tape, ctx, lambda *a: None, on_slices)
            try:
                gw.run()
            finally:
                ctx.case["history"] = gw.log[:80]
            ctx.sample = {"history": gw.log[:40]}
        else:
            t = ctx.tape
            depth = 1 + t.choose(8)
            kinds = [t.choose(2) for _ in range(3)]
            ctx.case["depth"] = depth
            ctx.case["kinds"] = kinds
            plain_levels(ctx, t, depth, kinds)
            ctx.sample = {"depth": depth, "generator_levels": kinds}
    finally:
        if was:
            gc.enable()

"""C12 - customizations bind to exactly the code that runs; every customize option works.

Stateful reference-model conformance: a tape-drawn operation sequence builds
wrapper towers and nestings, registers / re-registers customizations, calls the
targets and extracts from inside; IdentityDict runs against a list-of-pairs
model.  (The weakest fit of the three model checks: no faults, no interleaving.)
"""
import functools
import sys
import types
import warnings

from ..kernel import Violation

PROPERTY = "C12"
LEVEL = "exploration"
RULE = (
    "one case = a tape-drawn sequence over: build a tower (depth 0-5) over {partial, wraps, bound method, classmethod, staticmethod}; a generated nesting of functions/classes (depth 1-4) addressed by "
    "name path; two functions compiled from the same source (equal, distinct code objects); customize() with all 8 flag combinations x {no elaborate, elaborate->None, elaborate->replacement, elaborate->PRUNE / () / []} x {direct, decorator}; "
    "re-registration (latest wins); every target is called and extract_since() from a callee checks hide / hide_line / pruned callee / replacement on exactly the frames running the registered code; "
    "IdentityDict vs a list-of-pairs model under 30 random get/set/del/pop/setdefault/popitem/iter/len/eq operations with equal-but-distinct keys. distinct = (tower, flags, elaborate kind, form) and dict-op sequences"
)
ASSUMPTIONS = ["the code that 'executes when the target is called' is recorded by the base function itself (sys._getframe().f_code)", "nested names are unique within their scope (siblings whose names extend or contain the wanted name do occur)"]
REAL_VS_STUB = {"real": ["get_code, code_dispatch, IdentityDict, customize, elaborate_frame, extract_since"], "stub": ["generated towers / nestings", "model map id(code) -> latest hook", "list-of-pairs dict model"]}
RARE_PROBES = ["hide_line_checked", "prune_checked", "replacement_checked", "empty_replacement_checked", "equal_distinct_code", "decorator_form", "reregistered"]
LEGS = [
    {"name": "reg312", "python": "3.12", "quick": 6000, "thorough": 150000, "quick_s": 40, "thorough_s": 400},
    {"name": "reg39", "python": "3.9", "quick": 2500, "thorough": 60000, "quick_s": 30, "thorough_s": 300},
]

_snap = {}


def setup(leg, params):
    from ..world.registry import RegistrySnapshot

    _snap["s"] = RegistrySnapshot()


def reset():
    s = _snap.get("s")
    if s is not None:
        s.restore()


class Key(object):
    """Equal-but-distinct keys."""

    def __init__(self, v, n):
        self.v = v
        self.n = n

    def __eq__(self, o):
        return isinstance(o, Key) and o.v == self.v

    def __hash__(self):
        return hash(self.v)

    def __repr__(self):
        return "K%d.%d" % (self.v, self.n)


def identity_dict_leg(ctx):
    from stackscope.lowlevel import IdentityDict

    t = ctx.tape
    keys = [Key(i % 3, i) for i in range(6)]
    d = IdentityDict()
    model = []  # list of [key, value]

    def find(k):
        for p in model:
            if p[0] is k:
                return p
        return None

    class _M(object):
        @staticmethod
        def remove(p):
            for i, q in enumerate(model):
                if q is p:
                    del model[i]
                    return

    ops = []
    for step in range(30):
        op = t.choose(9)
        k = keys[t.choose(len(keys))]
        v = t.choose(100)
        ops.append((op, repr(k), v))
        if op == 0:
            d[k] = v
            p = find(k)
            if p:
                p[1] = v
            else:
                model.append([k, v])
        elif op == 1:
            p = find(k)
            try:
                got = d[k]
                if p is None or got != p[1]:
                    raise Violation("c12_identitydict", "d[%r] = %r, model %r after %r" % (k, got, p, ops), {})
            except KeyError:
                if p is not None:
                    raise Violation("c12_identitydict", "d[%r] raised KeyError, model has it; ops %r" % (k, ops), {})
        elif op == 2:
            p = find(k)
            try:
                del d[k]
                if p is None:
                    raise Violation("c12_identitydict", "del of an absent key succeeded", {})
                _M.remove(p)
            except KeyError:
                if p is not None:
                    raise Violation("c12_identitydict", "del raised KeyError for a present key", {})
        elif op == 3:
            p = find(k)
            got = d.pop(k, "dflt")
            if (p is None and got != "dflt") or (p is not None and got != p[1]):
                raise Violation("c12_identitydict", "pop(%r) = %r, model %r" % (k, got, p), {})
            if p is not None:
                _M.remove(p)
        elif op == 4:
            p = find(k)
            got = d.setdefault(k, v)
            if p is None:
                model.append([k, v])
                exp = v
            else:
                exp = p[1]
            if got != exp:
                raise Violation("c12_identitydict", "setdefault(%r) = %r, model %r" % (k, got, exp), {})
        elif op == 5:
            if model:
                kk, vv = d.popitem()
                p = find(kk)
                if p is None or p[1] != vv:
                    raise Violation("c12_identitydict", "popitem returned %r" % ((kk, vv),), {})
                _M.remove(p)
        elif op == 6:
            got = list(d)
            if len(got) != len(model) or any(a is not b[0] for a, b in zip(got, model)):
                raise Violation("c12_identitydict", "iteration %r, model %r; ops %r" % (got, [p[0] for p in model], ops), {})
        elif op == 7:
            if len(d) != len(model) or (k in d) != (find(k) is not None):
                raise Violation("c12_identitydict", "len/contains disagree with the model (len %d vs %d) ops %r" % (len(d), len(model), ops), {})
        else:
            other = IdentityDict([(p[0], p[1]) for p in model])
            if not (d == other):
                raise Violation("c12_identitydict", "equality with an identical-content IdentityDict is False", {})
            if model:
                # same values under an equal-but-distinct key must not compare equal
                p0 = model[0]
                twin = Key(p0[0].v, 99)
                other2 = IdentityDict([(twin, p0[1])] + [(p[0], p[1]) for p in model[1:]])
                if d == other2:
                    raise Violation("c12_identitydict", "IdentityDict equality treats equal-but-distinct keys as the same key", {})
    ctx.cover(repr(("idict", tuple(o[0] for o in ops))))
    ctx.log("idict", tuple(o[0] for o in ops))


LAYERS = ["partial", "wraps", "method", "classmethod", "staticmethod"]


class _Dummy(object):
    pass


def build_tower(t, base):
    n = t.weighted([2, 3, 2, 2, 1, 1])
    x = base
    desc = []
    for _ in range(n):
        layer = LAYERS[t.choose(len(LAYERS))]
        desc.append(layer)
        if isinstance(x, (classmethod, staticmethod)) and layer in ("partial", "classmethod", "staticmethod"):
            # descriptor objects are not callable: what code meets is their bound form
            x = x.__get__(None, _Dummy)
            desc.append("bound")
        if layer == "partial":
            x = functools.partial(x)
        elif layer == "wraps":
            inner = x

            def make(inner):
                if isinstance(inner, (classmethod, staticmethod)):
                    target = inner.__func__
                else:
                    target = inner

                @functools.wraps(target)
                def wrapper(*a, **kw):
                    return target(*a, **kw)

                return wrapper

            x = make(inner)
        elif layer == "method":
            if isinstance(x, (classmethod, staticmethod)):
                x = x.__func__
            x = types.MethodType(x, object())
        elif layer == "classmethod":
            x = classmethod(x)
        else:
            x = staticmethod(x)
    return x, desc


NEST_SRC_COUNTER = [0]


def gen_nesting(t):
    """Source of outer() with a nested path of functions/classes; returns (source, path, runner expr)."""
    depth = 1 + t.choose(4)
    NEST_SRC_COUNTER[0] += 1
    lines = ["def outer(rec, probe):"]
    path = []
    ind = 1
    kinds = []
    for d in range(depth):
        is_class = d < depth - 1 and t.choose(3) == 1
        name = ("C%d" if is_class else "f%d") % d
        # decoy sibling with another name
        lines.append("    " * ind + "def decoy%d(): return %d" % (d, d))
        if is_class:
            lines.append("    " * ind + "class %s:" % name)
        else:
            if kinds and kinds[-1] == "class":
                lines.append("    " * ind + "def %s(self=None):" % name)
            else:
                lines.append("    " * ind + "def %s():" % name)
        path.append(name)
        kinds.append("class" if is_class else "func")
        ind += 1
    lines.append("    " * ind + "rec.append(__import__('sys')._getframe(0).f_code)")
    lines.append("    " * ind + "return probe()")
    # returns: each function level returns the call of the next; classes are instantiated by the caller
    # build the return chain bottom-up
    ind -= 1
    for d in range(depth - 1, -1, -1):
        name = path[d]
        if d == 0:
            break
        parent_kind = kinds[d - 1]
        ind -= 1
        if parent_kind == "func":
            if kinds[d] == "class":
                nxt = path[d + 1]
                lines.append("    " * (ind + 1) + "return %s().%s()" % (name, nxt) if False else "    " * (ind + 1) + "pass")
    # simpler: run via explicit traversal from the outside (see run_nesting)
    return "\n".join(lines) + "\n", path, kinds


def run(ctx):
    import stackscope
    from stackscope import customize, elaborate_frame, extract_since, PRUNE
    from stackscope.lowlevel import get_code

    t = ctx.tape
    identity_dict_leg(ctx)

    # ---- base functions: two compiled from the same source (equal, distinct code) ----
    src = (
        "def base(rec, probe):\n"
        "    rec.append(__import__('sys')._getframe(0).f_code)\n"
        "    return callee(probe)\n"
        "def callee(probe):\n"
        "    return probe()\n"
    )
    ns1, ns2 = {}, {}
    exec(compile(src, "<c12-base>", "exec"), ns1)
    exec(compile(src, "<c12-base>", "exec"), ns2)
    base1, base2 = ns1["base"], ns2["base"]
    if base1.__code__ != base2.__code__ or base1.__code__ is base2.__code__:
        raise Violation("c12_harness", "equal-but-distinct code objects could not be built", {})
    ctx.stat("equal_distinct_code")

    # ---- get_code through a tower ----
    tower, desc = build_tower(t, base1)
    rec = []
    base1(rec, lambda: None)
    executed = rec[0]
    try:
        got = get_code(tower)
    except Exception as e:
        raise Violation("c12_get_code_raised", "get_code(tower %r) raised %r" % (desc, e), {"tower": desc})
    if got is not executed:
        raise Violation("c12_get_code_wrong", "get_code through %r returned %r, the code that runs is %r" % (desc, got, executed), {"tower": desc})

    # ---- nested names ----
    depth = 1 + t.choose(4)
    lines = ["def outer(rec, probe, path_out):"]
    ind = 1
    path = []
    kinds = []
    for d in range(depth):
        is_class = (d < depth - 1) and t.choose(3) == 1
        name = ("K%d" if is_class else "n%d") % d
        # decoy sibling defined first: an unrelated name, or one that contains / extends the wanted name
        decoy = ("decoy%d" % d, name + "_x", "x_" + name, name + "0")[t.choose(4)]
        lines.append("    " * ind + "def %s(): return %d" % (decoy, d))
        if is_class:
            lines.append("    " * ind + "class %s:" % name)
        else:
            lines.append("    " * ind + "def %s(*a):" % name)
        path.append(name)
        kinds.append(is_class)
        ind += 1
    lines.append("    " * ind + "rec.append(__import__('sys')._getframe(0).f_code)")
    lines.append("    " * ind + "return probe()")
    # unwind: make every level return/hold the next so that we can call through
    for d in range(depth - 1, 0, -1):
        ind -= 1
        if not kinds[d - 1]:
            # parent is a function: return the child (function or class)
            lines.append("    " * ind + "return %s" % path[d])
    lines.append("    return %s" % path[0])
    nsrc = "\n".join(lines) + "\n"
    nns = {}
    exec(compile(nsrc, "<c12-nest>", "exec"), nns)
    outer = nns["outer"]
    rec2 = []
    try:
        obj = outer(rec2, lambda: None, None)
        for d in range(1, depth):
            if kinds[d - 1]:
                obj = getattr(obj, path[d])
            else:
                obj = obj()
        if kinds[depth - 1]:
            pass
        else:
            obj()
    except Exception as e:
        raise Violation("c12_harness", "nesting driver failed: %r\n%s" % (e, nsrc), {})
    if rec2:
        try:
            gotn = get_code(outer, *path)
        except Exception as e:
            raise Violation("c12_get_code_raised", "get_code(outer, *%r) raised %r" % (path, e), {"path": path})
        if gotn is not rec2[0]:
            raise Violation("c12_get_code_nested_wrong", "get_code(outer, *%r) is not the code object that ran" % (path,), {"path": path, "source": nsrc})
        for missing in ("nope", path[-1][:-1], path[-1] + "_"):
            try:
                get_code(outer, *(path[:-1] + [missing]))
            except ValueError:
                pass
            else:
                raise Violation("c12_get_code_nested_wrong", "get_code with a non-existent nested name (%r) did not raise ValueError" % missing, {})

    # ---- customize: flags x elaborate x form ----
    hide = t.choose(2) == 1
    hide_line = t.choose(2) == 1
    prune = t.choose(2) == 1
    ekind = t.choose(6)  # 0 none, 1 returns None, 2 returns replacement, 3 returns PRUNE, 4 returns (), 5 returns []
    form = t.choose(2)  # 0 direct, 1 decorator
    replacement_gen = None

    def repl_target():
        yield 1

    replacement_gen = repl_target()
    next(replacement_gen)
    elab_calls = []

    def elab_none(frame, next_inner):
        elab_calls.append(frame.pyframe.f_code)
        return None

    def elab_repl(frame, next_inner):
        elab_calls.append(frame.pyframe.f_code)
        return replacement_gen

    def elab_empty(frame, next_inner):
        elab_calls.append(frame.pyframe.f_code)
        return (PRUNE, (), [])[ekind - 3]

    elaborate = (None, elab_none, elab_repl, elab_empty, elab_empty, elab_empty)[ekind]
    kwargs = {"hide": hide, "hide_line": hide_line, "prune": prune, "elaborate": elaborate}
    # sometimes register something else first: the latest registration must win
    if t.choose(4) == 1:
        ctx.stat("reregistered")
        customize(tower, hide=not hide, hide_line=not hide_line, prune=not prune)
    if form == 0:
        r = customize(tower, **kwargs)
        if r is not tower:
            raise Violation("c12_customize_return", "customize(target, ...) did not return the target", {})
    else:
        ctx.stat("decorator_form")
        dec = customize(**kwargs)
        r = dec(tower)
        if r is not tower:
            raise Violation("c12_customize_return", "@customize(...) did not return the decorated function unchanged", {})
    flags = {"hide": hide, "hide_line": hide_line, "prune": prune, "elaborate": ("none", "returns_none", "replacement", "returns_PRUNE", "returns_empty_tuple", "returns_empty_list")[ekind], "form": ("direct", "decorator")[form], "tower": desc}
    ctx.case = dict(flags)
    ctx.cover(repr(("cust", tuple(desc), hide, hide_line, prune, ekind, form)))

    def observe(base):
        out = {}

        def probe():
            with warnings.catch_warnings():
                warnings.simplefilter("ignore")
                out["st"] = extract_since(out["outer"])
            return None

        def runner():
            out["outer"] = sys._getframe(0)
            base([], probe)

        runner()
        return out["st"]

    st1 = observe(base1)
    st2 = observe(base2)
    ctx.log("cust", tuple(desc), hide, hide_line, prune, ekind, form, len(st1.frames), len(st2.frames))
    names1 = [f.funcname for f in st1.frames]
    names2 = [f.funcname for f in st2.frames]
    # the untouched twin (equal code, other identity) must be completely unaffected
    if names2[:3] != ["runner", "base", "callee"] or any(f.hide or f.hide_line for f in st2.frames[:3]):
        raise Violation(
            "c12_registration_leaks_to_equal_code",
            "customizing one function affected frames running an equal but distinct code object: frames %r hide %r"
            % (names2, [(f.hide, f.hide_line) for f in st2.frames[:3]]),
            flags,
        )
    if st1.error is not None:
        raise Violation("c12_error", "extract_since error %r" % (st1.error,), flags)
    if names1[:2] != ["runner", "base"]:
        raise Violation("c12_frames", "frames %r" % (names1,), flags)
    fb = st1.frames[1]
    if fb.pyframe.f_code is not executed:
        raise Violation("c12_harness", "base frame runs other code", {})
    if bool(fb.hide) != hide:
        raise Violation("c12_option_hide", "customize(hide=%r) (%s form): Frame.hide is %r" % (hide, flags["form"], fb.hide), flags)
    ctx.stat("hide_line_checked")
    if bool(fb.hide_line) != hide_line:
        raise Violation("c12_option_hide_line", "customize(hide_line=%r) (%s form): Frame.hide_line is %r" % (hide_line, flags["form"], fb.hide_line), flags)
    if ekind and (not elab_calls or elab_calls[0] is not executed or any(c is not executed for c in elab_calls)):
        raise Violation("c12_option_elaborate", "elaborate hook calls %r" % (elab_calls,), flags)
    rest = names1[2:]
    if ekind == 2:
        ctx.stat("replacement_checked")
        if rest != ["repl_target"]:
            raise Violation("c12_option_elaborate", "elaborate returned a replacement but the rest of the stack is %r" % (rest,), flags)
    elif ekind >= 3:
        # an empty replacement IS a replacement: the frame's callees are removed whatever the prune flag says
        ctx.stat("empty_replacement_checked")
        if rest:
            raise Violation("c12_option_elaborate", "elaborate returned the empty replacement %s (prune=%r, %s form) but callees are still present: %r" % (flags["elaborate"], prune, flags["form"], rest), flags)
    elif prune:
        ctx.stat("prune_checked")
        if rest:
            raise Violation("c12_option_prune", "customize(prune=True) (%s form): callees still present: %r" % (flags["form"], rest), flags)
    else:
        if rest[:1] != ["callee"]:
            raise Violation("c12_option_prune", "callee missing without prune: %r" % (rest,), flags)
    # dispatch() must name the registered implementation for exactly that code
    impl1 = elaborate_frame.dispatch(fb)
    impl2 = elaborate_frame.dispatch(st2.frames[1])
    if impl1 is impl2:
        raise Violation("c12_registration_leaks_to_equal_code", "dispatch() returns the same implementation for equal-but-distinct code", flags)
    if executed not in elaborate_frame.registry or base2.__code__ in elaborate_frame.registry:
        raise Violation("c12_registry_membership", "registry membership is by equality, not identity", flags)
    ctx.sample = flags

"""C16 on the program world (see sim/world/observe.py: check_c16)."""
from ..world import progworld

PROPERTY = "C16"
LEVEL = "exploration"
RULE = "generated programs of the program world (see C01), observed at every suspension and from probes; see DESIGN.md section 5"
ASSUMPTIONS = ["same program world as C01/C02"]
REAL_VS_STUB = {"real": ["stackscope", "CPython of each leg", "contextlib"], "stub": ["generated programs", "shadow managers", "driver"]}
RARE_PROBES = ["c16_raw_frames_checked"]
LEGS = [
    {"name": "w312", "python": "3.12", "quick": 2500, "thorough": 60000, "quick_s": 50, "thorough_s": 420},
    {"name": "w311", "python": "3.11", "quick": 2000, "thorough": 50000, "quick_s": 40, "thorough_s": 300},
    {"name": "w310", "python": "3.10", "quick": 2000, "thorough": 50000, "quick_s": 40, "thorough_s": 300},
    {"name": "w39", "python": "3.9", "quick": 2000, "thorough": 50000, "quick_s": 40, "thorough_s": 300},
]


def run(ctx):
    progworld.run_program(ctx, ["c16"], force={"call": True})


# ---------------------------------------------------------------------------
# hooks legs: frames reached through custom stack items and through
# elaborate_frame replacements / insertions (the greenback and Trio glue hand
# generator-likes over this way)

LEGS.append({"name": "hooks312", "python": "3.12", "quick": 4000, "thorough": 100000, "quick_s": 30, "thorough_s": 300, "params": {"mode": "hooks"}})
LEGS.append({"name": "hooks39", "python": "3.9", "quick": 2000, "thorough": 50000, "quick_s": 30, "thorough_s": 200, "params": {"mode": "hooks"}})

_hooks = {}


class Box(object):
    def __init__(self, payload):
        self.payload = payload


def setup(leg, params):
    if params.get("mode") != "hooks":
        return
    import stackscope
    from stackscope import _customization as cust

    cust.unwrap_stackitem.register(Box, lambda box: _hooks["unwrap"](box))

    def outer_gen(inner):
        yield inner

    _hooks["outer_gen"] = outer_gen
    cust.elaborate_frame.register(outer_gen, lambda frame, next_inner: _hooks["elab"](frame, next_inner))


def run_hooks(ctx):
    import weakref
    import stackscope
    from stackscope._customization import FrameIterator
    from ..kernel import Violation

    t = ctx.tape

    def gen_fn(depth):
        if depth > 0:
            yield from gen_fn(depth - 1)
        else:
            yield 1

    async def coro_fn(depth):
        if depth > 0:
            await coro_fn(depth - 1)
        else:
            await Trap()

    class Trap(object):
        def __await__(self):
            yield 1

    async def agen_fn():
        await Trap()
        yield 1

    made = []

    def make():
        k = t.choose(3)
        if k == 0:
            g = gen_fn(t.choose(3))
            next(g)
        elif k == 1:
            g = coro_fn(t.choose(3))
            g.send(None)
        else:
            g = agen_fn()
            a = g.asend(None)
            a.send(None)
            made.append(a)
        made.append(g)
        return g

    def wrap(objs):
        form = t.choose(4)
        if form == 0 and len(objs) == 1:
            return objs[0]
        if form == 1:
            return tuple(objs)
        if form == 2:
            return list(objs)
        return FrameIterator(iter(objs))

    how = t.choose(3)
    payload = [make() for _ in range(1 + t.choose(2))]
    genlikes = [x for x in made]
    elab_mode = t.choose(3)  # 0 none, 1 replacement, 2 insert before next_inner
    repl = [make() for _ in range(1 + t.choose(2))] if elab_mode else []
    genlikes = [x for x in made]
    _hooks["unwrap"] = lambda box: wrap(box.payload)

    hide_outer = t.choose(3) == 0

    def elab(frame, next_inner):
        if hide_outer:
            frame.hide = True
        if elab_mode == 0:
            return None
        if elab_mode == 1:
            return repl[0] if (len(repl) == 1 and t.choose(2)) else tuple(repl)
        return tuple(repl) + (next_inner,)

    _hooks["elab"] = elab
    og = _hooks["outer_gen"](None)
    next(og)
    genlikes.append(og)
    if how == 0:
        root = Box(payload + [og])
    elif how == 1:
        root = Box([Box(payload), og])
    else:
        root = Box([og] + payload)
    ctx.case = {"root_form": how, "elaborate": ("none", "replace", "insert")[elab_mode], "payload": [type(x).__name__ for x in payload], "replacement": [type(x).__name__ for x in repl]}
    st = stackscope.extract(root)
    if st.error is not None:
        raise Violation("c16_hooks_error", "extract error %r" % (st.error,), ctx.case)
    owners = {}
    for g in genlikes:
        for attr in ("gi_frame", "cr_frame", "ag_frame"):
            fr = getattr(g, attr, None)
            if fr is not None:
                owners[id(fr)] = g
    seen = 0
    for f in st.frames:
        g = owners.get(id(f.pyframe))
        o = f.origin
        if o is not None:
            weakref.ref(o)
            try:
                fo = stackscope.extract_outermost(o)
            except Exception as e:
                raise Violation("c16_origin_does_not_recover_frame", "hooks: frame %s has origin %s but extract_outermost(origin) raises %r" % (f.funcname, type(o).__name__, e), ctx.case)
            if fo.pyframe is not f.pyframe:
                raise Violation("c16_origin_does_not_recover_frame", "hooks: frame %s has origin %s which recovers another frame" % (f.funcname, type(o).__name__), ctx.case)
        if g is not None:
            seen += 1
            if o is not g:
                raise Violation(
                    "c16_origin_missing",
                    "hooks (%r): frame %s is the frame of a suspended %s handed over by a hook but its origin is %s"
                    % (ctx.case, f.funcname, type(g).__name__, type(o).__name__),
                    ctx.case,
                )
    # extract_outermost(x) is the first frame of extract(x), hidden or not
    for x in (og, root):
        sx = stackscope.extract(x)
        try:
            fo = stackscope.extract_outermost(x)
        except Exception as e:
            raise Violation("c16_outermost_raises", "hooks: extract_outermost(%s) raised %r although extract() has %d frames" % (type(x).__name__, e, len(sx.frames)), ctx.case)
        f0 = sx.frames[0]
        if fo.pyframe is not f0.pyframe or fo.hide != f0.hide or fo.lineno != f0.lineno or fo.origin is not f0.origin:
            raise Violation(
                "c16_outermost_differs",
                "hooks: extract_outermost(%s) is frame %s (hide=%r), extract().frames[0] is %s (hide=%r)"
                % (type(x).__name__, fo.funcname, fo.hide, f0.funcname, f0.hide),
                ctx.case,
            )
    # raw frames below a SUSPENDED generator-like: it yields from / awaits a custom iterator that an
    # unwrap_stackitem hook turns into bare frame objects (frames of other suspended generator-likes). Those
    # frames are in the host's series but are not its frame: they must not carry the host as origin.
    if t.choose(2):
        _hooks["elab"] = lambda frame, next_inner: None

        class It(Box):
            def __iter__(self):
                return self

            __await__ = __iter__

            def __next__(self):
                return 1

        raws = [make() for _ in range(1 + t.choose(2))]
        genlikes.extend(x for x in made if x not in genlikes)
        it = It([fr for g in raws for fr in [getattr(g, "gi_frame", None) or getattr(g, "cr_frame", None) or getattr(g, "ag_frame", None)] if fr is not None])
        hk = t.choose(2)
        if hk == 0:
            def host_fn(x):
                yield from x

            host = host_fn(it)
            next(host)
            host_frame = host.gi_frame
        else:
            async def host_fn(x):
                await x

            host = host_fn(it)
            host.send(None)
            host_frame = host.cr_frame
        genlikes.append(host)
        sh = stackscope.extract(host)
        case = dict(ctx.case, raw_frames_below=("generator", "coroutine")[hk], raw=[type(x).__name__ for x in raws])
        if sh.error is not None:
            raise Violation("c16_hooks_error", "extract error %r" % (sh.error,), case)
        if not sh.frames or sh.frames[0].pyframe is not host_frame or sh.frames[0].origin is not host:
            raise Violation("c16_origin_missing", "raw frames: the suspended host's own frame is not first with the host as origin", case)
        if len(sh.frames) != 1 + len(it.payload):
            raise Violation("c16_hooks_frames", "raw frames: %d frames for a host plus %d bare frames" % (len(sh.frames), len(it.payload)), case)
        for f in sh.frames[1:]:
            o = f.origin
            ctx.stat("c16_raw_frames_checked")
            if o is not None:
                try:
                    fo = stackscope.extract_outermost(o)
                except Exception as e:
                    raise Violation("c16_origin_does_not_recover_frame", "raw frames: frame %s has origin %s but extract_outermost(origin) raises %r" % (f.funcname, type(o).__name__, e), case)
                if fo.pyframe is not f.pyframe:
                    raise Violation(
                        "c16_origin_does_not_recover_frame",
                        "raw frames: bare frame %s reached through a hook below a suspended %s has that %s as origin, which recovers frame %s instead" % (f.funcname, type(o).__name__, type(o).__name__, fo.funcname),
                        case,
                    )
    ctx.stat("c16_hook_frames_checked", seen)
    ctx.cover(("c16hooks", how, elab_mode, tuple(type(x).__name__ for x in payload), tuple(type(x).__name__ for x in repl)))
    ctx.log("hooks", how, elab_mode, len(st.frames), seen)
    ctx.sample = ctx.case
    for g in genlikes:
        try:
            g.close()
        except Exception:
            pass


# ---------------------------------------------------------------------------
# chains legs: the C03 chain space (await / yield from through wrappers, __await__
# objects, asend / athrow / aclose awaitables, anext() awaitables, plain iterators)

LEGS.append({"name": "chains312", "python": "3.12", "quick": 6000, "thorough": 150000, "quick_s": 30, "thorough_s": 300, "params": {"mode": "chains"}})
LEGS.append({"name": "chains310", "python": "3.10", "quick": 3000, "thorough": 60000, "quick_s": 30, "thorough_s": 200, "params": {"mode": "chains"}})
LEGS.append({"name": "chains39", "python": "3.9", "quick": 3000, "thorough": 60000, "quick_s": 30, "thorough_s": 200, "params": {"mode": "chains"}})


def run_chains(ctx):
    import gc
    import warnings
    import stackscope
    from ..kernel import Violation
    from ..world import chains, observe
    from . import c03

    world = chains.ChainWorld(ctx.tape, ctx)
    ctx.case["program"] = world.text
    was = gc.isenabled()
    gc.disable()
    try:
        W, root, rk, step, throw = c03.start(world)
        n = 0
        while n < 20:
            r = step()
            if r[0] != "susp":
                break
            n += 1
        try:
            root.close() if not hasattr(root, "aclose") else None
        except BaseException:
            pass
        W.closed = True
        for target in range(n):
            W, root, rk, step, throw = c03.start(world)
            for _ in range(target + 1):
                r = step()
            if r[0] != "susp":
                break
            W.root = root
            bat = observe.Battery(ctx, [], W)
            with warnings.catch_warnings():
                warnings.simplefilter("ignore")
                st = stackscope.extract(root)
            ctx.stat("chain_suspensions_checked")
            bat.check_c16(W, st, root, "suspended")
            # extract_outermost(x) is the first frame of extract(x)
            if st.frames:
                fo = stackscope.extract_outermost(root)
                f0 = st.frames[0]
                if fo.pyframe is not f0.pyframe or fo.lineno != f0.lineno or fo.origin is not f0.origin:
                    raise Violation("c16_outermost_differs", "extract_outermost(root) is not the first frame of extract(root)", {})
            ctx.cover(("c16-chain", observe.PY, tuple(c03.world_links(world))[:6], target))
            W.closed = True
    finally:
        world.close()
        if was:
            gc.enable()
    ctx.sample = {"program": world.text}


_run_program = run


def run(ctx):
    if ctx.params.get("mode") == "hooks":
        return run_hooks(ctx)
    if ctx.params.get("mode") == "chains":
        return run_chains(ctx)
    return _run_program(ctx)

"""C02 - contexts of frames running on the calling thread, also mid-enter/exit."""
from ..world import progworld

PROPERTY = "C02"
LEVEL = "exploration"
RULE = (
    "same generated programs as C01 plus sync functions; PROBE statements in bodies, in __enter__/__exit__/__aenter__/__aexit__ scripts, "
    "in generator-based manager bodies before and after their yield, in ExitStack callbacks and in plain callees 1-2 calls below; each probe "
    "calls extract_since(root frame) and contexts_active_in_frame(frame, None, next_inner) for every ancestor and compares with the shadow. "
    "distinct = (python, probe position class, opcode 5-gram around f_lasti, #active, exiting?) per observed running frame"
)
ASSUMPTIONS = [
    "same manager kinds and shadow-mark placement as C01",
    "a Violation raised inside a probe is parked and re-raised after the run so the generated program cannot swallow it",
]
REAL_VS_STUB = {
    "real": ["stackscope (all of it)", "CPython compiler+interpreter of each leg", "contextlib"],
    "stub": ["generated programs", "shadow-reporting managers", "driver loop"],
}
RARE_PROBES = ["probes", "exception_path_exit", "exit_swallows", "enter_raises", "exit_raises"]
LEGS = [
    {"name": "probe312", "python": "3.12", "quick": 4000, "thorough": 120000, "quick_s": 50, "thorough_s": 420},
    {"name": "probe311", "python": "3.11", "quick": 2000, "thorough": 50000, "quick_s": 40, "thorough_s": 300},
    {"name": "probe310", "python": "3.10", "quick": 2000, "thorough": 50000, "quick_s": 40, "thorough_s": 300},
    {"name": "probe39", "python": "3.9", "quick": 2000, "thorough": 50000, "quick_s": 40, "thorough_s": 300},
]


def run(ctx):
    progworld.run_program(ctx, ["c02"], force={"probe": True}, suspend=False)

"""C02 - contexts of frames running on the calling thread, also mid-enter/exit."""
from ..world import progworld

PROPERTY = "C02"
LEVEL = "exploration"
RULE = (
    "same generated programs as C01 plus sync functions; PROBE statements in bodies, in __enter__/__exit__/__aenter__/__aexit__ scripts, "
    "in generator-based manager bodies before and after their yield, in ExitStack callbacks and in plain callees 1-2 calls below; each probe "
    "calls extract_since(root frame) and contexts_active_in_frame(frame, None, next_inner) for every ancestor and compares with the shadow. "
    "distinct = (python, probe position class, opcode 5-gram around f_lasti, #active, exiting?) per observed running frame"
)
ASSUMPTIONS = [
    "same manager kinds and shadow-mark placement as C01",
    "a Violation raised inside a probe is parked and re-raised after the run so the generated program cannot swallow it",
]
REAL_VS_STUB = {
    "real": ["stackscope (all of it)", "CPython compiler+interpreter of each leg", "contextlib"],
    "stub": ["generated programs", "shadow-reporting managers", "driver loop"],
}
RARE_PROBES = ["probes", "exception_path_exit", "exit_swallows", "enter_raises", "exit_raises", "hotloop_extractions"]
LEGS = [
    {"name": "probe312", "python": "3.12", "quick": 4000, "thorough": 120000, "quick_s": 50, "thorough_s": 420},
    {"name": "probe311", "python": "3.11", "quick": 2000, "thorough": 50000, "quick_s": 40, "thorough_s": 300},
    {"name": "probe310", "python": "3.10", "quick": 2000, "thorough": 50000, "quick_s": 40, "thorough_s": 300},
    {"name": "probe39", "python": "3.9", "quick": 2000, "thorough": 50000, "quick_s": 40, "thorough_s": 300},
]


# Hot loops: a generator, coroutine or async generator that is *executing* goes round a loop a
# few hundred to a few thousand times and is extracted from a callee every time.  The
# interpreter's adaptive instruction counters take every value on the way (finding F26: a
# particular counter value made `ag_await` of an executing async generator return garbage).
LEGS.append({"name": "hotloop312", "python": "3.12", "quick": 160, "thorough": 4000, "quick_s": 40, "thorough_s": 300, "run_timeout": 120, "crash_is_violation": True, "params": {"mode": "hotloop"}})
LEGS.append({"name": "hotloop311", "python": "3.11", "quick": 160, "thorough": 4000, "quick_s": 40, "thorough_s": 300, "run_timeout": 120, "crash_is_violation": True, "params": {"mode": "hotloop"}})
LEGS.append({"name": "hotloop39", "python": "3.9", "quick": 80, "thorough": 2000, "quick_s": 30, "thorough_s": 200, "run_timeout": 120, "crash_is_violation": True, "params": {"mode": "hotloop"}})


def run_hotloop(ctx):
    import sys
    import types
    import warnings
    import stackscope
    from ..kernel import Violation

    t = ctx.tape
    kind = ("agen", "coro", "gen")[t.weighted([3, 1, 1])]
    n = 200 + t.choose(2800)
    body = ("continue", "pass", "x = probe(root, i)")[t.choose(3)]
    via = t.choose(3)  # where the probe is called from: __exit__, __enter__, the loop body
    ctx.case = {"kind": kind, "iterations": n, "body": body, "probe_from": via}
    state = {"n": 0, "bad": None, "with_contexts": t.choose(2) == 1, "mgr": None}
    if state["with_contexts"]:
        n = min(n, 600)  # a full context analysis per iteration is ten times the cost
    box = {}

    def probe(*a):
        root = box["root"]
        wc = state["with_contexts"]
        with warnings.catch_warnings(record=True) as wl:
            warnings.simplefilter("always")
            st = stackscope.extract(root, with_contexts=wc)
        state["n"] += 1
        if state["bad"] is None and wl:
            state["bad"] = "iteration %d: warning %s" % (state["n"], str(wl[0].message)[:200])
        if state["bad"] is None and wc and st.frames:
            # the root frame's own contexts: from __enter__ none yet, from the body the manager,
            # from __exit__ the manager, exiting
            cs = st.frames[0].contexts
            where = a[0] if a else "body"
            want = {"enter": 0, "body": 1, "exit": 1}[where]
            ok = len(cs) == want
            if ok and want:
                ok = cs[0].obj is state["mgr"] and bool(cs[0].is_exiting) == (where == "exit") and cs[0].varname == "x"
            if not ok:
                state["bad"] = "iteration %d: probe from %s: contexts of the running root %r" % (
                    state["n"], where, [(type(c.obj).__name__, c.is_exiting, c.varname) for c in cs])
        if state["bad"] is None:
            # ground truth: the frames from the root's own frame to this one
            truth = []
            f = sys._getframe(0)
            while f is not None:
                truth.append(f)
                if f is box["frame"]:
                    break
                f = f.f_back
            truth.reverse()
            got = [x.pyframe for x in st.frames]
            if st.error is not None or len(got) != len(truth) or any(a is not b for a, b in zip(got, truth)):
                state["bad"] = "iteration %d: extract(running %s) gave frames %r (error %r), the running stack from its frame is %r" % (
                    state["n"], kind, [x.f_code.co_name for x in got], st.error, [x.f_code.co_name for x in truth])
        return None

    class M(object):
        def __enter__(self):
            state["mgr"] = self
            if via == 1:
                probe("enter")
            return self

        def __exit__(self, *a):
            if via == 0:
                probe("exit")
            return False

    ns = {"M": M, "probe": probe, "box": box, "sys": sys, "types": types}
    head = {"agen": "async def root():", "coro": "async def root():", "gen": "def root():"}[kind]
    src = [head, "    box['frame'] = sys._getframe(0)", "    for i in range(%d):" % n, "        with M() as x:"]
    if via == 2 or body.startswith("x ="):
        src.append("            probe()")
    src.append("            " + ("continue" if body == "continue" else "pass"))
    if kind in ("agen", "gen"):
        src.append("    yield 1")
    exec(compile("\n".join(src) + "\n", "<hotloop>", "exec"), ns)
    root = ns["root"]()
    box["root"] = root
    ctx.in_sut(True)
    try:
        if kind == "agen":
            try:
                root.asend(None).send(None)
            except StopIteration:
                pass
        elif kind == "coro":
            try:
                root.send(None)
            except StopIteration:
                pass
        else:
            next(root)
    finally:
        ctx.in_sut(False)
        try:
            if kind == "agen":
                root.aclose().send(None)
            else:
                root.close()
        except BaseException:
            pass
    ctx.stat("hotloop_extractions", state["n"])
    ctx.cover(("hotloop", kind, via, body[:4], n // 500, state["with_contexts"]))
    ctx.log("hot", kind, n, state["n"], state["bad"] is None)
    if state["bad"]:
        raise Violation("c02_running_root_frames", state["bad"], ctx.case)
    ctx.sample = ctx.case


_guard = [None]


def setup(leg, params):
    """3.11+: every value-stack slot that inspect_frame reads (a reference is taken in the same
    step) must lie inside what the frame owns at that moment - also for frames of the calling
    thread itself, where nothing moves: a read above the frame's current depth would be a stale
    pointer.  Same stand-in for the module's `ctypes` name as in the thread legs of C07."""
    import sys

    if sys.version_info < (3, 11) or params.get("mode") == "hotloop":
        return
    from stackscope import _lowlevel, lowlevel
    from stackscope import _lowlevel_cpython_311 as impl
    from . import c07

    _lowlevel._check_trickery_available()
    _lowlevel.inspect_frame(sys._getframe())
    if not isinstance(impl.ctypes, c07.SlotGuard):
        g = c07.SlotGuard(impl.ctypes, impl)
        impl.ctypes = g
        impl.FrameObject = g.FrameObjectProxy
        real_inspect = impl.inspect_frame

        from ..world import stackdepth

        def watched(frame):
            prev = g.frame, g.fixed_range
            g.frame = frame
            g.fixed_range = stackdepth.owned_slot_range(frame, impl)
            try:
                return real_inspect(frame)
            finally:
                g.frame, g.fixed_range = prev

        _lowlevel.inspect_frame = watched
        lowlevel.inspect_frame = watched
        _guard[0] = g


def run(ctx):
    if ctx.params.get("mode") == "hotloop":
        return run_hotloop(ctx)
    g = _guard[0]
    if g is not None:
        g.stale = []
        g.checked = 0
    try:
        progworld.run_program(ctx, ["c02"], force={"probe": True}, suspend=False)
    finally:
        if g is not None:
            ctx.stat("slot_reads_judged", g.checked)
    if g is not None and g.stale:
        from ..kernel import Violation

        n = len(g.stale)
        g.stale = []
        raise Violation("c02_slot_read_beyond_owned_stack", "inspect_frame made %d read(s) of value-stack slots (or through an outdated frame pointer) that the frame did not own at that moment" % n, {})

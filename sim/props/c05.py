"""C05 - extract never raises: faults contained, reported in .error, outer frames kept.

Per run one scenario is built (tape), the fault-free extraction records the
dynamic sequence of hook invocations, then an exception is injected at EVERY
single position k (complete single-fault enumeration for that scenario) and at
sampled pairs (k1, k2).
"""
import collections.abc
import gc
import sys
import threading
import types
import warnings

from ..kernel import Violation, Skip
from ..world import driver, progworld, observe

PROPERTY = "C05"
LEVEL = "fault_enumeration"
RULE = (
    "one case = one extraction scenario (suspended generated program with nested generator-based managers and exit stacks / thread parked on a lock / suspended, current or dead greenlet / "
    "synthetic stack items with tuple, list, iterator and yields_frames unwrappers / arbitrary non-stack objects incl. hostile __repr__, __eq__, __class__, __getattr__, __len__, __bool__, __iter__ and hooks returning sequences whose protocol methods raise); the fault-free run records every dynamic "
    "invocation of unwrap_stackitem, FrameIterator.__next__, elaborate_frame, contexts_active_in_frame, elaborate_context, unwrap_context, unwrap_context_generator and gc.get_referents; "
    "then every position k gets an injected Exception in turn (exhaustive for single faults of that scenario) and up to 16 sampled pairs (half of them 1-4 invocations apart). distinct = (scenario kind, hook, position class, nesting of the stack being built)"
)
ASSUMPTIONS = [
    "injected faults are Exception subclasses (BaseException and warnings-as-errors are outside the statement)",
    "the Stack 'being built' at injection time is the one whose extract_child frame is nearest on the Python stack",
    "'frames outward of the failure' = frames before the frame the failing hook was working on; for unwrap_stackitem failures only prefix-consistency with the fault-free frames is demanded",
]
REAL_VS_STUB = {
    "real": ["stackscope.extract and every hook dispatcher / built-in glue", "contextlib", "threading", "greenlet (3.12 leg)"],
    "stub": ["generated programs", "synthetic item types", "wrappers that count and raise at the k-th invocation"],
}
RARE_PROBES = ["persistent_frame_source_faults", "late_faults", "pairs_injected", "fault_is_exception_group", "hostile_special_method_objects", "hook_returns_hostile_sequence", "fault_in_nested_stack", "exception_group_seen", "scn_program", "scn_thread", "scn_greenlet", "scn_items", "scn_object"]
LEGS = [
    {"name": "faults312", "python": "3.12", "quick": 1600, "thorough": 40000, "quick_s": 50, "thorough_s": 420, "run_timeout": 60},
    {"name": "faults311", "python": "3.11", "quick": 600, "thorough": 15000, "quick_s": 40, "thorough_s": 300, "run_timeout": 60},
    {"name": "faults310", "python": "3.10", "quick": 600, "thorough": 15000, "quick_s": 40, "thorough_s": 300, "run_timeout": 60},
    {"name": "faults39", "python": "3.9", "quick": 600, "thorough": 15000, "quick_s": 40, "thorough_s": 300, "run_timeout": 60},
]


class Injected(Exception):
    pass


class NonTermination(BaseException):
    """Raised by the harness (not an Exception: it must get out of extract) when the code
    under test keeps stepping a frame source that fails on every step."""


def make_fault(kind, message):
    """The exception a faulting seam raises: a plain exception, or an exception
    that is itself a group (a hook that ran several things and reports all the
    failures) - the raised object, not its members, must be retrievable."""
    if kind == 0:
        return Injected(message)
    if kind >= 5:
        # an exception of a type the library itself catches somewhere for control flow ("no frames", "not found",
        # "attribute missing"): raised by a HOOK it is still a fault of that hook and must be reported
        return typed_fault(TYPED[(kind - 5) % len(TYPED)])(message)
    try:
        EG = ExceptionGroup  # noqa: F821 (builtin on 3.11+)
    except NameError:
        from exceptiongroup import ExceptionGroup as EG
    members = [Injected(message + " (member %d)" % i) for i in range(1 + kind % 2)]
    if kind in (1, 2):
        return InjectedGroup(EG)(message, members)
    return EG(message, members)


TYPED = [RuntimeError, IndexError, AttributeError, KeyError, ValueError, TypeError, LookupError, NotImplementedError]
_igcache = {}


def typed_fault(base):
    c = _igcache.get(base)
    if c is None:
        c = type("Injected" + base.__name__, (base,), {})
        _igcache[base] = c
    return c


def InjectedGroup(EG):
    c = _igcache.get(EG)
    if c is None:
        c = type("InjectedGroup", (EG,), {})
        _igcache[EG] = c
    return c


class Recorder(object):
    """Counting / faulting wrappers around every hook seam."""

    HOOKS = ["unwrap_stackitem", "frameiter_next", "elaborate_frame", "contexts_active_in_frame",
             "elaborate_context", "unwrap_context", "unwrap_context_generator", "get_referents"]

    def __init__(self):
        self.calls = []  # hook names in dynamic order
        self.inject_at = set()
        self.fault_kind = {}
        self.persistent = False
        self.broken_iters = {}
        self.broken_steps = 0
        self.after = False
        self.injected = []  # (k, hook, exception, building_root, frame_arg)
        self.via_outermost = set()
        self.installed = False

    def install(self):
        import stackscope
        from stackscope import _extract, _glue, _customization, _lowlevel

        self.mods = (_extract, _glue, _customization, _lowlevel)
        self.saved = []

        def patch(obj, name, new):
            self.saved.append((obj, name, getattr(obj, name)))
            setattr(obj, name, new)

        rec = self

        def wrap(hook, orig, frame_arg_index=None):
            def wrapper(*a, **kw):
                k = len(rec.calls)
                rec.calls.append(hook)
                if k in rec.inject_at:
                    e = make_fault(rec.fault_kind.get(k, 0), "fault #%d in %s" % (k, hook))
                    farg = None
                    if frame_arg_index is not None and a:
                        farg = a[frame_arg_index]
                    if rec.after:
                        # the hook does (part of) its work, then fails
                        try:
                            orig(*a, **kw)
                        except Exception:
                            pass
                    rec.injected.append((k, hook, e, rec.building(), farg))
                    if hook == "unwrap_stackitem":
                        # call site of known finding K3: unwrapping on behalf of extract_outermost() called by the
                        # contextlib glue (unwrap_generatorbased_contextmanager), which has no Stack to report into
                        fr = sys._getframe(1)
                        while fr is not None:
                            if fr.f_code.co_name == "extract_outermost" and fr.f_back is not None and fr.f_back.f_code.co_name == "unwrap_generatorbased_contextmanager":
                                rec.via_outermost.add(k)
                                break
                            fr = fr.f_back
                    raise e
                return orig(*a, **kw)

            for attr in ("register", "dispatch", "registry", "_clear_cache"):
                if hasattr(orig, attr):
                    setattr(wrapper, attr, getattr(orig, attr))
            return wrapper

        patch(_extract, "unwrap_stackitem", wrap("unwrap_stackitem", _extract.unwrap_stackitem))
        patch(_extract, "elaborate_frame", wrap("elaborate_frame", _extract.elaborate_frame, 0))
        patch(_extract, "contexts_active_in_frame", wrap("contexts_active_in_frame", _extract.contexts_active_in_frame, 0))
        patch(_extract, "elaborate_context", wrap("elaborate_context", _extract.elaborate_context, 1))
        patch(_extract, "unwrap_context", wrap("unwrap_context", _extract.unwrap_context, 1))
        patch(_glue, "unwrap_context_generator", wrap("unwrap_context_generator", _glue.unwrap_context_generator, 1))
        orig_next = _customization.FrameIterator.__next__

        def fi_next(self_):
            if id(self_) in rec.broken_iters:
                # a frame source that stays broken: every further step fails as well (unlike a
                # generator, which is finished after raising).  extract must not keep asking.
                rec.broken_steps += 1
                if rec.broken_steps > 2000:
                    raise NonTermination("frame iterator stepped %d times after its first failure" % rec.broken_steps)
                raise Injected("the frame iterator is still broken (step %d after its failure)" % rec.broken_steps)
            k = len(rec.calls)
            rec.calls.append("frameiter_next")
            if k in rec.inject_at:
                e = make_fault(rec.fault_kind.get(k, 0), "fault #%d in FrameIterator step" % k)
                rec.injected.append((k, "frameiter_next", e, rec.building(), None))
                if rec.persistent:
                    rec.broken_iters[id(self_)] = self_
                raise e
            return orig_next(self_)

        patch(_customization.FrameIterator, "__next__", fi_next)

        class GcProxy(object):
            def __getattr__(self_, name):
                return getattr(gc, name)

            def get_referents(self_, *objs):
                k = len(rec.calls)
                rec.calls.append("get_referents")
                if k in rec.inject_at:
                    e = make_fault(rec.fault_kind.get(k, 0), "fault #%d in gc.get_referents" % k)
                    rec.injected.append((k, "get_referents", e, rec.building(), None))
                    raise e
                return gc.get_referents(*objs)

        proxy = GcProxy()
        patch(_glue, "gc", proxy)
        patch(_lowlevel, "gc", proxy)
        self.extract_child_code = _extract.extract_child.__code__
        self.installed = True

    def uninstall(self):
        for obj, name, old in reversed(self.saved):
            setattr(obj, name, old)
        self.saved = []
        self.installed = False

    def building(self):
        """(root item of the Stack being built, nesting depth) read from the nearest extract_child frame."""
        fr = sys._getframe(2)
        item = None
        depth = 0
        found = False
        while fr is not None:
            if fr.f_code is self.extract_child_code:
                if not found:
                    item = fr.f_locals.get("stackitem")
                    found = True
                depth += 1
            fr = fr.f_back
        return (item, depth)


def all_stacks(st, acc=None, depth=0):
    """Every Stack in the result tree with its nesting depth."""
    if acc is None:
        acc = []
    acc.append((st, depth))
    for f in st.frames:
        for c in f.contexts:
            ctx_stacks(c, acc, depth + 1)
    return acc


def ctx_stacks(c, acc, depth):
    if c.inner_stack is not None:
        all_stacks(c.inner_stack, acc, depth)
    for ch in c.children:
        if hasattr(ch, "frames"):
            all_stacks(ch, acc, depth)
        else:
            ctx_stacks(ch, acc, depth)


def errors_of(st, injected=()):
    e = st.error
    if e is None:
        return []
    if any(e is x for x in injected):
        # a fault that is itself a group, reported alone
        return [e]
    subs = getattr(e, "exceptions", None)
    if subs is not None and type(e).__name__ == "ExceptionGroup":
        return list(subs)
    return [e]


def frame_key(f):
    return (id(f.pyframe), f.lineno, tuple((id(c.obj), c.is_async, c.is_exiting) for c in f.contexts))


# ---- scenarios -------------------------------------------------------------


class Scenario(object):
    kind = "?"

    def target(self):
        raise NotImplementedError

    def close(self):
        pass


class ProgramScenario(Scenario):
    kind = "program"

    def __init__(self, ctx):
        self.ctx = ctx
        self.b = driver.build(ctx, {"gcm": True, "es": True, "probe": False, "passive": False}, None)
        self.W = self.b.W
        self.W.abort = False
        # unwrap_context_generator is consulted only for generator-based managers whose function has a hook
        # registered: give a tape-chosen subset of the generated @contextmanager functions a benign one
        # (returns None = no opinion, so the fault-free result is unchanged) - otherwise that seam never fires
        self.ucg_codes = []
        import re as _re
        import stackscope as _ss
        from stackscope import _customization as _cust

        for name in sorted(n for n in self.b.ns if _re.match(r"^m\d+$", n)):
            if ctx.tape.choose(2):
                try:
                    code = _ss.lowlevel.get_code(self.b.ns[name]) if hasattr(_ss.lowlevel, "get_code") else _cust.get_code(self.b.ns[name])
                except Exception:
                    continue
                _ss.unwrap_context_generator.register(code, func=lambda frame, context: None)
                self.ucg_codes.append(code)
                ctx.stat("unwrap_context_generator_registered")
        want = 1 + ctx.tape.choose(4)
        self.reached = []

        def on_suspend(W, root, kind):
            self.reached.append(root)
            if len(self.reached) >= want:
                W.abort = True

        self.drv = driver.Driver(self.b, ctx, on_suspend=on_suspend)
        # run the driver only until the chosen suspension: emulate its loop without cleanup
        W = self.W
        fn = self.b.ns[self.b.prog.root.name]
        self.root = fn(W)
        W.root = self.root
        self.op = None
        self.alive = False
        steps = 0
        try:
            while steps < 12 and len(self.reached) < want:
                steps += 1
                if hasattr(self.root, "asend"):
                    if self.op is None:
                        self.op = self.root.asend(None)
                    try:
                        self.op.send(None)
                        self.reached.append(1)
                        self.alive = True
                    except StopIteration:
                        self.op = None
                        self.reached.append(1)
                        self.alive = self.root.ag_frame is not None
                    except BaseException:
                        self.alive = False
                        break
                else:
                    try:
                        self.root.send(None)
                        self.reached.append(1)
                        self.alive = True
                    except BaseException:
                        self.alive = False
                        break
        finally:
            pass
        if not self.alive:
            self.close()
            raise Skip()

    def target(self):
        return self.root

    def close(self):
        from ..world.registry import _unwrap_mp
        import stackscope as _ss

        reg = _unwrap_mp(_ss.unwrap_context_generator.registry)
        for code in self.ucg_codes:
            reg.pop(code, None)
        driver.cleanup(self.b)
        try:
            self.root.close() if not hasattr(self.root, "aclose") else None
        except BaseException:
            pass


class ThreadScenario(Scenario):
    kind = "thread"

    def __init__(self, ctx):
        import contextlib

        depth = 1 + ctx.tape.choose(3)
        self.lock = threading.Lock()
        self.lock.acquire()
        self.ready = threading.Event()
        lock, ready = self.lock, self.ready

        @contextlib.contextmanager
        def cm():
            yield 1

        def level(n):
            with cm() as x:
                if n <= 0:
                    ready.set()
                    lock.acquire()
                    lock.release()
                else:
                    level(n - 1)

        self.thread = threading.Thread(target=level, args=(depth,))
        self.thread.daemon = True
        self.thread.start()
        if not self.ready.wait(20):
            raise Skip()
        # wait until it is really parked inside lock.acquire
        import time

        for _ in range(2000):
            fr = sys._current_frames().get(self.thread.ident)
            if fr is not None and fr.f_code.co_name == "level" and self.lock.locked():
                break
            time.sleep(0)

    def target(self):
        return self.thread

    def close(self):
        self.lock.release()
        self.thread.join(20)


class GreenletScenario(Scenario):
    kind = "greenlet"

    def __init__(self, ctx):
        try:
            import greenlet
        except ImportError:
            raise Skip()
        import contextlib

        self.greenlet = greenlet
        which = ctx.tape.choose(3)
        depth = 1 + ctx.tape.choose(3)
        main = greenlet.getcurrent()

        @contextlib.contextmanager
        def cm():
            yield 1

        def level(n):
            with cm() as x:
                if n <= 0:
                    main.switch(1)
                else:
                    level(n - 1)

        self.g = greenlet.greenlet(lambda: level(depth))
        self.which = which
        if which == 0:
            self.g.switch()  # suspended
        elif which == 1:
            pass  # not started
        else:
            self.g.switch()
            self.g.switch()  # finishes -> dead

    def target(self):
        return self.g

    def close(self):
        if self.which == 0:
            try:
                self.g.throw(self.greenlet.GreenletExit)
            except BaseException:
                pass


class ItemsScenario(Scenario):
    kind = "items"
    stateful_hooks = True  # scripts are consumed per call: calling a hook twice would shift them

    def __init__(self, ctx):
        from . import c10

        if "gens" not in c10._state:
            c10.setup("c05", {})
        self.c10 = c10
        table, scripts, root, wc = c10.gen_case(ctx.tape)
        self.table, self.scripts = table, scripts
        self.counter = [0]
        self.rootobj = c10.materialise(root, self.counter)
        self.calls = None
        self.install()

    def install(self):
        from stackscope._customization import FrameIterator, PRUNE

        c10 = self.c10
        table, scripts = self.table, self.scripts
        counter = self.counter
        self.calls = [0] * c10.NG
        calls = self.calls

        def unwrap(i, item):
            kind, specs = table[i]
            if kind == "none":
                return None
            items = [c10.materialise(s, counter) for s in specs]
            if kind == "single":
                if specs[0] == ("T", i):
                    return item
                return items[0]
            if kind == "tuple":
                return tuple(items)
            if kind == "list":
                return items
            return FrameIterator(iter(items))

        def elab(k, frame, next_inner):
            n = calls[k]
            calls[k] += 1
            script = scripts[k]
            if n >= len(script):
                return None
            act = script[n]
            if act[0] == "none":
                return None
            if act[0] == "prune":
                return PRUNE
            if act[0] == "empty":
                return []
            items = [c10.materialise(s, counter) for s in act[1]]
            if act[0] == "replace1":
                return items[0]
            if act[0] == "replaceN":
                return tuple(items)
            if act[0] == "replaceL":
                return items
            return tuple(items) + (next_inner,)

        c10._state["unwrap"] = unwrap
        c10._state["elab"] = elab

    def target(self):
        # scripts are consumed per extraction: reset the per-code counters
        for i in range(len(self.calls)):
            self.calls[i] = 0
        return self.rootobj


class Hostile(object):
    def __init__(self, mode):
        self.mode = mode

    def __repr__(self):
        if self.mode == 0:
            raise ValueError("hostile repr")
        return "<hostile>"

    def __eq__(self, other):
        if self.mode == 1:
            raise ValueError("hostile eq")
        return False

    def __hash__(self):
        return 1


class HostileFault(Exception):
    pass


def _hostile_object(mode, raised):
    """An object one of whose special methods / attributes raises (a lazy proxy without
    its target, a mock with a failing spec...).  Every exception it raises is noted."""

    def boom(*a, **k):
        e = HostileFault("hostile %s" % mode)
        raised.append(e)
        raise e

    if mode == "class":
        return type("HostileClassAttr", (object,), {"__class__": property(boom)})()
    if mode == "getattr":
        return type("HostileGetattr", (object,), {"__getattr__": boom})()
    name = {"len": "__len__", "bool": "__bool__", "iter": "__iter__", "call": "__call__"}[mode]
    return type("Hostile_" + mode, (object,), {name: boom})()


class _HostileSeq(collections.abc.Sequence):
    """What a careless hook might hand back: a Sequence whose protocol methods fail."""

    def __init__(self, mode, raised):
        self.mode = mode
        self.raised = raised

    def _boom(self, what):
        e = HostileFault("hostile sequence %s" % what)
        self.raised.append(e)
        raise e

    def __len__(self):
        if self.mode in ("len", "all"):
            self._boom("len")
        return 2

    def __getitem__(self, i):
        self._boom("getitem")

    def __reversed__(self):
        if self.mode in ("reversed", "all"):
            self._boom("reversed")
        return iter(())


class BadResultItem(object):
    """Stack item whose registered unwrap hook returns whatever .result is."""

    def __init__(self, result):
        self.result = result


class ObjectScenario(Scenario):
    kind = "object"

    def __init__(self, ctx):
        c = ctx.tape.choose(17)
        self.which = c
        self.raised = []
        if c < 9:
            self.obj = [None, 42, "text", sys, int, object(), Hostile(1), Hostile(0), (1, 2)][c]
        elif c < 15:
            self.obj = _hostile_object(("class", "getattr", "len", "bool", "iter", "call")[c - 9], self.raised)
            ctx.stat("hostile_special_method_objects")
        else:
            self.obj = BadResultItem(_HostileSeq(("len", "reversed", "getitem", "all")[ctx.tape.choose(4)], self.raised))
            ctx.stat("hook_returns_hostile_sequence")

    def target(self):
        return self.obj


SCENARIOS = [ProgramScenario, ProgramScenario, ItemsScenario, ThreadScenario, GreenletScenario, ObjectScenario]


def setup(leg, params):
    import stackscope
    from ..world.registry import RegistrySnapshot
    from . import c10

    c10.setup("c05", {})
    stackscope.unwrap_stackitem.register(BadResultItem)(lambda item: item.result)


def do_extract(target):
    import stackscope

    with warnings.catch_warnings():
        warnings.simplefilter("ignore")
        return stackscope.extract(target)


def run(ctx):
    import stackscope

    tape = ctx.tape
    cls = SCENARIOS[tape.weighted([3, 3, 3, 1, 1 if sys.version_info[:2] == (3, 12) else 0, 1])]
    was = gc.isenabled()
    gc.disable()
    scn = None
    rec = Recorder()
    try:
        scn = cls(ctx)
        ctx.stat("scn_" + scn.kind)
        rec.install()
        # fault-free run
        try:
            st0 = do_extract(scn.target())
        except Exception as e:
            raise Violation("c05_extract_raised", "fault-free extract(%s scenario) raised %r" % (scn.kind, e), {"scenario": scn.kind})
        raised0 = list(getattr(scn, "raised", ()))
        if raised0:
            # the object (or what a hook returned for it) raised from one of its special methods:
            # extract did not raise (checked above) and must say so in the result
            ctx.fault("special_method_raises")
            errs0 = errors_of(st0) if isinstance(st0, stackscope.Stack) else []
            if not any(x is e for x in errs0 for e in raised0):
                raise Violation(
                    "c05_fault_not_reported",
                    "object scenario: %d exception(s) raised by the object's own special methods during extract, none of them is in Stack.error (%r)" % (len(raised0), getattr(st0, "error", None)),
                    {"scenario": scn.kind},
                )
            del scn.raised[:]
        n = len(rec.calls)
        base_calls = list(rec.calls)
        base_errors = len(errors_of(st0))
        ctx.stat("hook_invocations", n)
        ctx.log("scn", scn.kind, n, tuple(base_calls[:40]))
        stacks0 = all_stacks(st0)
        positions = list(range(n))
        if n > 80:
            # keep it bounded: all of the first 40, a seeded sample of the rest
            rest = positions[40:]
            pick = set(positions[:40])
            for _ in range(40):
                pick.add(rest[tape.choose(len(rest))])
            positions = sorted(pick)
        for k in positions:
            inject(ctx, scn, rec, [k], st0, stacks0, base_errors)
            # the same fault raised after the hook's own body has run (a hook that
            # fails late, having already edited the frame / context)
            if base_calls[k] in ("elaborate_frame", "elaborate_context", "unwrap_context") and not getattr(scn, "stateful_hooks", False):
                rec.after = True
                try:
                    inject(ctx, scn, rec, [k], st0, stacks0, base_errors)
                    ctx.stat("late_faults")
                finally:
                    rec.after = False
        # sampled pairs
        if n >= 2:
            for _ in range(min(16, n)):
                k1 = tape.choose(n)
                if tape.choose(2):
                    # two faults close together (the same frame, context or exit-stack child)
                    k2 = k1 + 1 + tape.choose(4)
                    if k2 >= n:
                        k2 = tape.choose(n)
                else:
                    k2 = tape.choose(n)
                if k1 != k2:
                    inject(ctx, scn, rec, sorted([k1, k2]), st0, stacks0, base_errors)
                    ctx.stat("pairs_injected")
        ctx.sample = {"scenario": scn.kind, "hook_invocations": base_calls[:60], "program": ctx.case.get("program")}
    finally:
        if rec.installed:
            rec.uninstall()
        if scn is not None:
            scn.close()
        if was:
            gc.enable()


def inject(ctx, scn, rec, ks, st0, stacks0, base_errors):
    import stackscope

    rec.calls = []
    rec.injected = []
    rec.via_outermost = set()
    rec.inject_at = set(ks)
    # what is raised: mostly a plain exception, sometimes an exception group
    rec.fault_kind = dict((k, ctx.tape.weighted([8, 1, 1, 1, 1, 4])) for k in ks)
    for k in ks:
        if rec.fault_kind[k] == 5:
            rec.fault_kind[k] = 5 + ctx.tape.choose(len(TYPED))
            ctx.stat("fault_is_builtin_typed")
    # a failing frame source may be a generator (finished once it raised) or an object that
    # fails on every later step too
    rec.persistent = ctx.tape.choose(3) == 2
    rec.broken_iters = {}
    rec.broken_steps = 0
    try:
        st = do_extract(scn.target())
    except NonTermination as e:
        raise Violation(
            "c05_extract_does_not_terminate",
            "extract(%s scenario) with fault(s) at invocation(s) %r: %s" % (scn.kind, ks, e),
            {"scenario": scn.kind, "positions": ks},
        )
    except Exception as e:
        raise Violation(
            "c05_extract_raised",
            "extract(%s scenario) raised %s: %s when fault(s) were injected at invocation(s) %r" % (scn.kind, type(e).__name__, e, ks),
            {"scenario": scn.kind, "positions": ks},
        )
    finally:
        rec.inject_at = set()
        if rec.broken_steps:
            ctx.stat("broken_frame_source_stepped_again", rec.broken_steps)
        if rec.persistent and rec.broken_iters:
            ctx.stat("persistent_frame_source_faults")
        rec.broken_iters = {}
        rec.persistent = False
    if not isinstance(st, stackscope.Stack):
        raise Violation("c05_not_a_stack", "extract returned %r" % type(st), {})
    stacks = all_stacks(st)
    inj = [x[2] for x in rec.injected]
    for (k, hook, exc, (item, depth), farg) in rec.injected:
        ctx.fault("hook_raises:" + hook)
        if 0 < rec.fault_kind.get(k, 0) < 5:
            ctx.stat("fault_is_exception_group")
        ctx.cover(("c05", scn.kind, hook, min(k, 10), depth, len(ks)))
        if depth > 1:
            ctx.stat("fault_in_nested_stack")
        # where must it be reported?
        holders = [s for (s, d) in stacks if any(x is exc for x in errors_of(s, inj))]
        if not holders and k in rec.via_outermost:
            ctx.stat("fault_inside_glue_extract_outermost")
            raise Violation(
                "c05_fault_lost_in_glue_extract_outermost",
                "%s scenario: exception injected at invocation %d (unwrap_stackitem, called for extract_outermost(mgr.gen) by the contextlib glue of a generator-based manager "
                "with an unwrap_context_generator hook) is in no Stack.error of the result" % (scn.kind, k),
                {"scenario": scn.kind, "hook": hook, "k": k, "depth": depth, "call_site": "unwrap_generatorbased_contextmanager -> extract_outermost"},
            )
        if not holders:
            raise Violation(
                "c05_fault_not_reported",
                "%s scenario: exception injected at invocation %d (%s) is in no Stack.error of the result" % (scn.kind, k, hook),
                {"scenario": scn.kind, "hook": hook, "k": k, "depth": depth},
            )
        h = holders[0]
        if depth <= 1:
            if h is not st:
                raise Violation("c05_fault_reported_in_wrong_stack", "fault in the outer extraction reported in a nested Stack", {"hook": hook})
        else:
            if h is st:
                # an error of a nested extraction must stay with the nested Stack
                raise Violation(
                    "c05_fault_reported_in_wrong_stack",
                    "%s scenario: fault at invocation %d (%s) happened while a nested Stack (depth %d) was being built but is reported on the outer Stack"
                    % (scn.kind, k, hook, depth),
                    {"hook": hook},
                )
            if item is not None and h.root is not None and h.root is not item:
                raise Violation("c05_fault_reported_in_wrong_stack", "nested fault reported in the Stack of another root", {"hook": hook})
        errs = errors_of(h, inj)
        if len(errs) == 1:
            if h.error is not exc:
                raise Violation("c05_single_error_wrapped", "a single error is not reported alone: %r" % (h.error,), {"hook": hook})
        else:
            ctx.stat("exception_group_seen")
            if type(h.error).__name__ != "ExceptionGroup":
                raise Violation("c05_multiple_errors_not_grouped", "multiple errors but error is %r" % (h.error,), {})
        # outward frames kept: compare the holder with its fault-free counterpart
        if h is st:
            ref = st0
        else:
            ref = None
            for (s0, d0) in stacks0:
                if s0.root is h.root and s0.root is not None:
                    ref = s0
                    break
        if ref is not None and len(ks) == 1:
            got = [f.pyframe for f in h.frames]
            exp = [f.pyframe for f in ref.frames]
            pf = None
            if farg is not None:
                pf = getattr(farg, "pyframe", None) or (farg if isinstance(farg, types.FrameType) else None)
            if pf is None and hook in ("elaborate_context", "unwrap_context", "unwrap_context_generator") and farg is not None:
                # farg is the Context: find its frame in the fault-free stack
                pass
            if pf is not None:
                idx = None
                for i, x in enumerate(exp):
                    if x is pf:
                        idx = i
                        break
                if idx is not None:
                    if len(got) < idx + 1:
                        raise Violation(
                            "c05_outward_frames_lost",
                            "%s scenario, fault in %s on frame #%d: only %d frames kept (the frame itself and everything outward must stay)" % (scn.kind, hook, idx, len(got)),
                            {"hook": hook, "idx": idx},
                        )
                    for i in range(idx):
                        if frame_key(h.frames[i]) != frame_key(ref.frames[i]):
                            raise Violation("c05_outward_frame_changed", "frame #%d outward of the failure differs from the fault-free extraction" % i, {"hook": hook})
                    if hook == "elaborate_frame" and h.frames[idx].hide:
                        raise Violation("c05_failed_frame_hidden", "frame whose elaborate_frame failed is hidden", {})
    # still formattable / summarisable
    try:
        s = str(st)
        st.format(ascii_only=True, show_hidden_frames=True)
        st.format_flat()
        st.as_stdlib_summary()
        st.as_stdlib_summary(show_contexts=True, show_hidden_frames=True)
    except Exception as e:
        if scn.kind == "object" and isinstance(scn.obj, Hostile) and scn.obj.mode == 0:
            return  # repr(root) itself raises: formatting cannot succeed, extract still did
        raise Violation("c05_result_not_formattable", "formatting the faulty result raised %r" % (e,), {"scenario": scn.kind})


def reset():
    pass

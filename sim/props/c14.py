"""C14 - Trio: the extracted tree is isomorphic to the real task tree, across thread hops."""
import gc

from ..world import trioworld

PROPERTY = "C14"
LEVEL = "exploration"
RULE = (
    "one case = a generated Trio program (task tree depth <= 3, fan-out <= 3, each task opening 0-2 nested nurseries and blocking in a nursery body or, after a body that ends by plain statement / try-except / "
    "try-finally / conditional return / cancelled scope, in the nursery's __aexit__; to_thread.run_sync <-> from_thread.run ping-pong of depth 0-3 with worker threads parked on locks) run by a real trio.run "
    "whose batch order is seeded from the tape; when everything is blocked a controller task extracts current_root_task() with recurse_child_tasks=True and walks Trio's own tree (child_nurseries / child_tasks) in parallel: "
    "every open nursery exactly once, in nesting order, obj identity, children matched by root identity, exiting flag as the world recorded, thread frames in place of the wait, no error, no warning; "
    "recurse_child_tasks=False must give stubs. distinct = (depth, #nurseries, fan-out, blocking kind, hop depth) per task"
)
ASSUMPTIONS = ["Trio's run loop order is controlled through trio._core._run._r and _ALLOW_DETERMINISTIC_SCHEDULING (exist in trio 0.34 for this purpose)", "worker threads are real; the controller waits (polling, unlogged) until they are parked on their locks", "CPython 3.12 only (trio is present for 3.11 too but greenlet/greenback are not: one interpreter keeps the leg simple)"]
REAL_VS_STUB = {"real": ["stackscope trio glue", "trio 0.34 run loop, nurseries, to_thread/from_thread, real worker threads"], "stub": ["generated task functions", "seeded batch order", "locks parking the workers"]}
RARE_PROBES = ["blocked_in_aexit", "thread_hops_checked", "stubs_checked"]
LEGS = [
    {"name": "trio312", "python": "3.12", "quick": 1500, "thorough": 30000, "quick_s": 50, "thorough_s": 420, "run_timeout": 120, "hang_in_stackscope_is_violation": True},
]


def run(ctx):
    was = gc.isenabled()
    gc.disable()
    try:
        trioworld.run_tree(ctx)
    finally:
        if was:
            gc.enable()

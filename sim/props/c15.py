"""C15 - greenlet stacks: suspended, current, dead, foreign-thread (greenback bridges: see the trio world)."""
import gc
import sys
import threading
import warnings

from ..kernel import Violation, Skip

PROPERTY = "C15"
LEVEL = "exploration"
RULE = (
    "one case = a director-driven tree of up to 5 greenlets (parent chains of depth 1-4, call depth 0-3 inside each, running generators in the middle of a stack) whose lifecycle "
    "(spawn, start, switch in/out, finish, throw GreenletExit) is a tape-chosen history; at tape-chosen moments the current greenlet extracts any greenlet of the tree: a suspended one must give exactly its "
    "own shadow call log (entry .. switch point) whoever asks (outsider, child, sibling, descendant), the current one its own portion of the running stack, unstarted / dead ones nothing, "
    "one running in another (baton-parked) thread an error and no frames. greenback legs: sync/async alternation depth 0-3 under seeded Trio, inspected from outside and inside. "
    "distinct = (asker relation, target state, parent-chain depth, call depth) cells"
)
ASSUMPTIONS = ["greenlets switch only from their loop frame (a direct C call), so a suspended greenlet's innermost Python frame is known to the world", "CPython 3.12 only: greenlet / greenback exist only in that venv"]
REAL_VS_STUB = {"real": ["stackscope greenlet + greenback glue", "greenlet 3.x", "greenback + trio for the bridge legs"], "stub": ["director choosing every lifecycle step", "shadow call logs"]}
RARE_PROBES = ["asked_by_descendant", "asked_by_sibling", "target_dead", "target_unstarted", "target_current", "foreign_thread_checked", "greenback_checked"]
LEGS = [
    {"name": "glet312", "python": "3.12", "quick": 3000, "thorough": 80000, "quick_s": 45, "thorough_s": 400, "run_timeout": 60, "hang_in_stackscope_is_violation": True, "params": {"mode": "tree"}},
    {"name": "gback312", "python": "3.12", "quick": 3000, "thorough": 60000, "quick_s": 45, "thorough_s": 300, "run_timeout": 90, "hang_in_stackscope_is_violation": True, "params": {"mode": "greenback"}},

]


def relation(gw, asker, target):
    if asker is target:
        return "self"
    if gw.is_ancestor(target, asker):
        return "descendant_asks"
    if gw.is_ancestor(asker, target):
        return "ancestor_asks"
    return "sibling_asks" if asker is not gw.main else "outsider_asks"


def on_inspect(gw, rec, target):
    import stackscope

    ctx = gw.ctx
    state = gw.state_of(target)
    rel = relation(gw, rec, target)
    me = sys._getframe(0)
    with warnings.catch_warnings():
        warnings.simplefilter("ignore")
        ctx.in_sut(True)
        st = stackscope.extract(target.glet)
        ctx.in_sut(False)
    got = [f.pyframe for f in st.frames]
    ctx.stat("inspections")
    ctx.cover(("c15", rel, state, len(target.frames), depth_of(gw, target)))
    ctx.log("insp", rec.name, target.name, state, len(got), st.error is not None)
    if rel == "descendant_asks":
        ctx.stat("asked_by_descendant")
    if rel == "sibling_asks":
        ctx.stat("asked_by_sibling")
    names = [f.f_code.co_name for f in got]
    if state in ("dead", "unstarted"):
        ctx.stat("target_" + state)
        if got or st.error is not None:
            raise Violation("c15_%s_has_frames" % state, "extract(%s greenlet) -> frames %r error %r" % (state, names, st.error), {"relation": rel})
        return
    if state == "suspended":
        if target is gw.main:
            exp = []
            fr = target.glet.gr_frame
            while fr is not None:
                exp.append(fr)
                fr = fr.f_back
            exp.reverse()
        else:
            exp = list(target.frames)
        if st.error is not None:
            raise Violation("c15_suspended_error", "extract(suspended greenlet) error %r" % (st.error,), {"relation": rel})
        if len(got) != len(exp) or any(a is not b for a, b in zip(got, exp)):
            raise Violation(
                "c15_suspended_frames",
                "extract(suspended greenlet %s) asked by %s (%s): frames %r, its own stack from entry to switch point is %r"
                % (target.name, rec.name, rel, names, [f.f_code.co_name for f in exp]),
                {"relation": rel},
            )
        return
    # current: own portion of the running stack
    ctx.stat("target_current")
    if st.error is not None:
        raise Violation("c15_current_error", "extract(current greenlet) error %r" % (st.error,), {})
    truth = []
    fr = me
    while fr is not None:
        truth.append(fr)
        fr = fr.f_back
    truth.reverse()
    if len(got) != len(truth) or any(a is not b for a, b in zip(got, truth)):
        raise Violation(
            "c15_current_frames",
            "extract(current greenlet %s): frames %r, its own portion of the running stack is %r" % (target.name, names, [f.f_code.co_name for f in truth]),
            {},
        )
    if target is not gw.main and (not got or got[0] is not target.frames[0]):
        raise Violation("c15_current_frames", "own portion does not start at the greenlet's entry function", {})


def depth_of(gw, r):
    d = 0
    g = r.glet.parent if r.glet is not None else None
    while g is not None:
        d += 1
        g = g.parent
    return d


def run_tree(ctx):
    from ..world import glets

    gw = glets.GWorld(ctx.tape, ctx, on_inspect)
    try:
        gw.run()
    finally:
        ctx.case["history"] = gw.log[:80]
    ctx.sample = {"history": gw.log[:60]}
    # a greenlet running in another thread: error, no frames
    if ctx.tape.choose(4) == 0:
        foreign_thread(ctx)


def foreign_thread(ctx):
    import greenlet
    import stackscope

    box = {}
    go = threading.Lock()
    go.acquire()
    back = threading.Lock()
    back.acquire()

    def body():
        def inner():
            box["child"] = greenlet.getcurrent()
            back.release()
            go.acquire()

        g = greenlet.greenlet(inner)
        box["main"] = greenlet.getcurrent()
        g.switch()

    th = threading.Thread(target=body)
    th.daemon = True
    th.start()
    back.acquire()
    try:
        with warnings.catch_warnings():
            warnings.simplefilter("ignore")
            ctx.in_sut(True)
            st = stackscope.extract(box["child"])
            ctx.in_sut(False)
        ctx.stat("foreign_thread_checked")
        if st.frames or st.error is None:
            raise Violation("c15_foreign_thread", "extract(greenlet running in another thread) -> frames %r error %r" % ([f.funcname for f in st.frames], st.error), {})
    finally:
        go.release()
        th.join(20)


def run(ctx):
    was = gc.isenabled()
    gc.disable()
    try:
        if ctx.params.get("mode") == "greenback":
            from ..world import trioworld

            trioworld.run_greenback(ctx)
        else:
            run_tree(ctx)
    finally:
        if was:
            gc.enable()

"""C13 - extraction options are scoped to their call tree and thread; stubs honoured."""
import contextlib
import sys
import threading
import warnings

from ..kernel import Violation
from ..sched.baton import Baton

PROPERTY = "C13"
LEVEL = "exploration"
RULE = (
    "one case = 1-4 baton threads, each running a tape-drawn well-nested tree (depth <= 4) of extract / extract_outermost / extract_child / fill_context calls made from unwrap and elaborate hooks, "
    "all four option combinations per level, hooks that raise at any level; the baton is handed over at every hook entry (tape decides who runs). Every hook observes the options in force through "
    "extract_child(for_task=True) (stub or populated) and through whether Frame.contexts of an inner extract_child are filled, and compares with the model = a stack of options per thread. "
    "distinct = (#threads, tree shape with options, raising positions) per run"
)
ASSUMPTIONS = ["hooks observe options only through the public API (extract_child results)", "thread switches happen at hook entries (and wherever a hook blocks); pre-emption inside ExtractOptions.push itself is not simulated"]
REAL_VS_STUB = {"real": ["stackscope.extract / extract_child / extract_outermost / fill_context / ExtractOptions (threading.local)", "real threads"], "stub": ["synthetic items and managers", "baton scheduler deciding who runs", "per-thread option-stack model"]}
RARE_PROBES = ["nested_extracts", "raising_hooks", "outermost_raised_through_push", "stub_checked", "bare_fill_context", "threads_interleaved"]
LEGS = [
    {"name": "opts312", "python": "3.12", "quick": 3000, "thorough": 80000, "quick_s": 45, "thorough_s": 400, "run_timeout": 90},
    {"name": "opts39", "python": "3.9", "quick": 1200, "thorough": 30000, "quick_s": 30, "thorough_s": 300, "run_timeout": 90},
]

_state = {}


class Node(object):
    def __init__(self, spec):
        self.spec = spec

    def __repr__(self):
        return "<Node %s>" % self.spec.get("id")


class TaskItem(object):
    pass


class PlainItem(object):
    pass


class ProbeMgr(object):
    """A manager whose elaborate_context hook observes the options."""

    def __enter__(self):
        return self

    def __exit__(self, *a):
        return False


class HookError(Exception):
    pass


def setup(leg, params):
    import stackscope
    from stackscope import _customization as cust

    def holder():
        with contextlib.nullcontext():
            yield 1

    g = holder()
    next(g)
    _state["gen"] = g
    _state["task"] = TaskItem()
    _state["plain"] = PlainItem()
    cust.unwrap_stackitem.register(TaskItem, lambda item: _state["gen"].gi_frame)
    cust.unwrap_stackitem.register(PlainItem, lambda item: _state["gen"].gi_frame)
    cust.unwrap_stackitem.register(Node, lambda node: _state["unwrap"](node))
    cust.elaborate_context.register(ProbeMgr, lambda mgr, context: _state["elab_ctx"](mgr, context))


def gen_tree(t, depth, counter):
    counter[0] += 1
    spec = {"id": counter[0], "children": [], "raises": t.choose(6) == 1}
    if depth < 3:
        n = t.weighted([3, 3, 2, 1])
        for _ in range(n):
            how = ("extract", "extract_child", "extract_child_task", "fill_context", "extract_outermost")[t.weighted([4, 2, 2, 1, 1])]
            ch = gen_tree(t, depth + 1, counter)
            ch["how"] = how
            ch["opts"] = (bool(t.choose(2)), bool(t.choose(2)))
            spec["children"].append(ch)
    return spec


def run(ctx):
    import stackscope
    from stackscope import extract_child, extract, extract_outermost, fill_context, Context

    t = ctx.tape
    nthreads = 1 + t.weighted([2, 3, 2, 1])
    counter = [0]
    trees = []
    for i in range(nthreads):
        root = gen_tree(t, 0, counter)
        root["opts"] = (bool(t.choose(2)), bool(t.choose(2)))
        trees.append(root)
    ctx.case = {"threads": nthreads, "trees": trees}
    baton = Baton(t, ctx)
    models = {}  # thread ident -> list of (wc, rc)
    problems = []

    def model():
        return models.setdefault(threading.get_ident(), [])

    def observe(where):
        """Read the options in force through the public API and compare with the model's top."""
        top = model()[-1] if model() else None
        if top is None:
            return
        try:
            probe = extract_child(_state["task"], for_task=True)
        except RuntimeError as e:
            problems.append(("c13_options_lost_inside_extraction", "%s (thread %s): extract_child refused to run inside a hook: %s" % (where, threading.current_thread().name, e)))
            return
        rc_seen = bool(probe.frames)
        if not rc_seen:
            ctx.stat("stub_checked")
            if probe.root is not _state["task"] or probe.leaf is not None or probe.error is not None:
                problems.append(("c13_stub_malformed", "stub Stack is %r" % (probe,)))
        plain = extract_child(_state["plain"], for_task=False)
        if not plain.frames:
            problems.append(("c13_inner_extract_empty", "extract_child(for_task=False) returned no frames"))
            return
        wc_seen = bool(plain.frames[0].contexts)
        if rc_seen and bool(probe.frames[0].contexts) != wc_seen:
            problems.append(("c13_inconsistent_observation", "task stack and plain stack disagree on with_contexts"))
        if (wc_seen, rc_seen) != top:
            problems.append((
                "c13_options_leak",
                "%s (thread %s): hook observes with_contexts=%r recurse_child_tasks=%r, the enclosing extract asked for %r"
                % (where, threading.current_thread().name, wc_seen, rc_seen, top),
            ))

    def do_unwrap(node):
        spec = node.spec
        baton.yield_("hook-%d" % spec["id"])
        observe("unwrap of node %d" % spec["id"])
        for ch in spec["children"]:
            child = Node(ch)
            how = ch["how"]
            wc, rc = ch["opts"]
            if how == "extract":
                ctx.stat("nested_extracts")
                model().append((wc, rc))
                try:
                    st = extract(child, with_contexts=wc, recurse_child_tasks=rc)
                finally:
                    model().pop()
                check_result(st, wc, problems)
            elif how == "extract_outermost":
                model().append((wc, rc))
                try:
                    extract_outermost(child, with_contexts=wc, recurse_child_tasks=rc)
                except HookError:
                    ctx.stat("outermost_raised_through_push")
                except RuntimeError:
                    pass
                finally:
                    model().pop()
            elif how == "extract_child":
                extract_child(child, for_task=False)
            elif how == "extract_child_task":
                top = model()[-1]
                st = extract_child(child, for_task=True)
                if not top[1]:
                    if st.frames or st.root is not child:
                        problems.append(("c13_stub_not_honoured", "extract_child(for_task=True) without recursion returned %r" % (st,)))
            else:
                c = Context(obj=ProbeMgr(), is_async=False)
                fill_context(c)
            baton.yield_("after-child-%d" % ch["id"])
            observe("after nested %s in node %d" % (how, spec["id"]))
        if spec["raises"]:
            ctx.stat("raising_hooks")
            raise HookError("node %d" % spec["id"])
        return _state["gen"].gi_frame

    def do_elab_ctx(mgr, context):
        baton.yield_("elab-ctx")
        observe("elaborate_context")

    _state["unwrap"] = do_unwrap
    _state["elab_ctx"] = do_elab_ctx

    def outside_check(where):
        try:
            extract_child(_state["plain"], for_task=False)
        except RuntimeError:
            return
        problems.append(("c13_extract_child_outside", "%s: extract_child outside any extraction did not raise" % where))

    def worker(tree):
        def fn():
            try:
                fn2()
            except Exception as e:
                problems.append(("c13_unexpected_exception", "thread %s: %r" % (threading.current_thread().name, e)))

        def fn2():
            outside_check("before")
            wc, rc = tree["opts"]
            model().append((wc, rc))
            try:
                with warnings.catch_warnings():
                    warnings.simplefilter("ignore")
                    st = extract(Node(tree), with_contexts=wc, recurse_child_tasks=rc)
            finally:
                model().pop()
            check_result(st, wc, problems)
            outside_check("after")
            # a bare fill_context outside any extraction behaves as (True, False)
            model().append((True, False))
            try:
                ctx.stat("bare_fill_context")
                fill_context(Context(obj=ProbeMgr(), is_async=False))
            finally:
                model().pop()
            outside_check("after bare fill_context")

        return fn

    if nthreads == 1:
        worker(trees[0])()
    else:
        for i, tree in enumerate(trees):
            baton.spawn("T%d" % i, worker(tree))
        baton.run()
        switches = sum(1 for a, b in zip(baton.trace, baton.trace[1:]) if a[0] != b[0])
        if switches:
            ctx.stat("threads_interleaved", switches)
    ctx.log("c13", nthreads, tuple(x[0] for x in baton.trace), len(problems))
    ctx.cover(repr((nthreads, shape(trees))))
    ctx.sample = ctx.case
    if problems:
        kind, msg = problems[0]
        raise Violation(kind, msg, {"schedule": [list(x) for x in baton.trace][:80]})


def shape(trees):
    def s(spec):
        return (spec.get("how", "root"), spec["opts"], spec["raises"], tuple(s(c) for c in spec["children"]))

    return tuple(s(x) for x in trees)


def check_result(st, wc, problems):
    if not wc:
        for f in st.frames:
            if f.contexts:
                problems.append(("c13_contexts_without_request", "with_contexts=False but Frame.contexts=%r" % (f.contexts,)))
                return


def reset():
    # a broken tree may leave options behind; every run starts from "outside any extraction"
    from stackscope import _extract

    for attr in ("with_contexts", "recurse_child_tasks"):
        try:
            setattr(_extract.current_options, attr, None)
        except Exception:
            pass

"""C11 - context hooks: elaborate, unwrap, re-elaborate until steady state.

Synthetic manager classes M0..M5 in wrapper chains plus generator-based
managers with unwrap_context_generator registered on their code; hook
behaviour comes from a tape-drawn table; oracle = model of the documented loop.
"""
import contextlib
import sys
import warnings

from ..kernel import Violation

PROPERTY = "C11"
LEVEL = "exploration"
RULE = (
    "one case = a wrapper chain of length 0-5 over 6 synthetic manager types (optionally headed by a generator-based manager whose code has an unwrap_context_generator hook) "
    "+ a tape-drawn table: unwrap result per type (None / inner manager / PRUNE / self) and elaborate actions per type (description, children, inner_stack, obj replacement); "
    "the Context is filled (a) by extract() of a generator suspended inside `with chain:`, (b) by extract_since from inside the manager's exit (exiting lookup path), (c) by a bare fill_context(); "
    "final obj/hide/inner_stack/children/description, the exact sequence of (hook, manager type) calls and error-after-100 are compared with a model of the documented loop and with each other. "
    "distinct = (chain types, unwrap kinds, elaborate actions, gcm head?, outcome)"
)
ASSUMPTIONS = ["hooks return only documented values", "obj replacement by elaborate_context only moves to a higher-numbered type (so it terminates)"]
REAL_VS_STUB = {"real": ["stackscope.fill_context, extract, unwrap_context / elaborate_context / unwrap_context_generator dispatch, contextlib glue"], "stub": ["synthetic manager types", "table-driven hooks", "loop model"]}
RARE_PROBES = ["cycle_guard", "pruned", "obj_replaced_by_elaborate", "gcm_head", "exiting_path"]
LEGS = [
    {"name": "ctx312", "python": "3.12", "quick": 8000, "thorough": 200000, "quick_s": 40, "thorough_s": 400, "run_timeout": 30, "hang_is_violation": True},
    {"name": "ctx39", "python": "3.9", "quick": 3000, "thorough": 60000, "quick_s": 30, "thorough_s": 300, "run_timeout": 30, "hang_is_violation": True},
]

NT = 6
_state = {}


class Mgr(object):
    def __init__(self, inner=None):
        self.inner = inner
        self.on_exit = None

    def __enter__(self):
        return self

    def __exit__(self, *exc):
        if self.on_exit is not None:
            self.on_exit()
        return False

    def __repr__(self):
        return "<%s>" % type(self).__name__


TYPES = [type("M%d" % i, (Mgr,), {}) for i in range(NT)]


@contextlib.contextmanager
def gcm_head(inner, hook):
    try:
        yield inner
    finally:
        if hook[0] is not None:
            hook[0]()


def setup(leg, params):
    import stackscope
    from stackscope import _customization as cust

    def mk_unwrap(i):
        def unwrap(mgr, context):
            return _state["unwrap"](i, mgr, context)

        return unwrap

    def mk_elab(i):
        def elab(mgr, context):
            return _state["elab"](i, mgr, context)

        return elab

    for i, T in enumerate(TYPES):
        cust.unwrap_context.register(T, mk_unwrap(i))
        cust.elaborate_context.register(T, mk_elab(i))

    def ucg(frame, context):
        return _state["ucg"](frame, context)

    cust.unwrap_context_generator.register(gcm_head, ucg)


def gen_case(tape):
    n = tape.weighted([1, 3, 3, 2, 1, 1])
    chain = [tape.choose(NT) for _ in range(n)]
    unwrap = []
    for i in range(NT):
        unwrap.append(("next", "none", "prune", "self")[tape.weighted([5, 3, 1, 1])])
    elab = []
    for i in range(NT):
        acts = []
        if tape.choose(2):
            acts.append("desc")
        if tape.choose(3) == 1:
            acts.append("children")
        if tape.choose(3) == 1:
            acts.append("inner_stack")
        if tape.choose(6) == 1 and i + 1 < NT:
            acts.append(("setobj", i + 1 + tape.choose(NT - i - 1)))
        elab.append(acts)
    head = tape.weighted([3, 1, 1, 1, 1])  # 0 no gcm head; 1..4 gcm head with ucg result none/next/prune/self
    return chain, unwrap, elab, head


def build_chain(chain):
    m = None
    objs = []
    for t in reversed(chain):
        m = TYPES[t](m)
        objs.append(m)
    objs.reverse()
    return m, objs


def model(chain_objs, unwrap, elab, head, head_mgr, setobj_objs):
    """Model of the documented loop. Returns dict(obj, hide, desc, has_children, has_inner, calls, error)."""
    calls = []
    res = {"hide": False, "desc": None, "children": False, "inner": False, "error": False}
    if head:
        obj = head_mgr
    else:
        obj = chain_objs[0]
    for step in range(100):
        # elaborate on the current manager
        if obj is head_mgr and head:
            calls.append(("E", "gcm"))
            res["inner"] = True  # built-in glue fills inner_stack (unless exiting) and description
            res["desc"] = "gcm"
            cur = obj
        else:
            i = TYPES.index(type(obj))
            calls.append(("E", i))
            cur = obj
            for a in elab[i]:
                if a == "desc":
                    res["desc"] = "d%d" % i
                elif a == "children":
                    res["children"] = True
                elif a == "inner_stack":
                    res["inner"] = True
                else:
                    cur = setobj_objs[a[1]]
        obj = cur
        # unwrap (dispatched on the possibly replaced obj)
        if obj is head_mgr and head:
            calls.append(("U", "gcm"))
            kind = (None, "none", "next", "prune", "self")[head]
            nxt = chain_objs[0] if chain_objs else None
        else:
            i = TYPES.index(type(obj))
            calls.append(("U", i))
            kind = unwrap[i]
            nxt = obj.inner
        if kind == "none" or (kind == "next" and nxt is None):
            break
        if kind == "prune":
            res["hide"] = True
            break
        if kind == "next":
            obj = nxt
        # 'self': obj unchanged
        res["inner"] = False
        res["children"] = False
    else:
        res["error"] = True
        if obj is head_mgr and head:
            calls.append(("U", "gcm"))
        else:
            calls.append(("U", TYPES.index(type(obj))))
    res["obj"] = obj
    res["calls"] = calls
    return res


def run(ctx):
    import stackscope
    from stackscope import Context, Stack, PRUNE

    tape = ctx.tape
    chain, unwrap, elab, head = gen_case(tape)
    if not chain and not head:
        chain = [0]
    ctx.case = {"chain": chain, "unwrap": unwrap, "elaborate": elab, "gcm_head": (None, "none", "next", "prune", "self")[head]}
    setobj_objs = [TYPES[j](None) for j in range(NT)]
    calls = []
    marker_child = Context(obj=None, is_async=False, description="child")
    marker_stack = Stack(root=None, frames=[])

    def do_unwrap(i, mgr, context):
        calls.append(("U", i))
        k = unwrap[i]
        if k == "none":
            return None
        if k == "prune":
            return PRUNE
        if k == "self":
            return mgr
        return mgr.inner

    def do_elab(i, mgr, context):
        calls.append(("E", i))
        for a in elab[i]:
            if a == "desc":
                context.description = "d%d" % i
            elif a == "children":
                context.children = [marker_child]
            elif a == "inner_stack":
                context.inner_stack = marker_stack
            else:
                ctx.stat("obj_replaced_by_elaborate")
                context.obj = setobj_objs[a[1]]

    def do_ucg(frame, context):
        calls.append(("U", "gcm"))
        k = (None, "none", "next", "prune", "self")[head]
        if k == "none":
            return None
        if k == "prune":
            return PRUNE
        if k == "self":
            return context.obj
        return chain_objs[0] if chain_objs else None

    _state["unwrap"] = do_unwrap
    _state["elab"] = do_elab
    _state["ucg"] = do_ucg

    def fresh():
        top, objs = build_chain(chain)
        hook = [None]
        hm = gcm_head(top, hook) if head else None
        return top, objs, hm, hook

    results = {}
    # (a) inside extract of a generator suspended in `with chain:`
    top, chain_objs, head_mgr, hook = fresh()
    if head:
        ctx.stat("gcm_head")

    def holder(m):
        with m:
            yield 1

    g = holder(head_mgr if head else top)
    next(g)
    del calls[:]
    with warnings.catch_warnings():
        warnings.simplefilter("ignore")
        st = stackscope.extract(g)
    if not st.frames or len(st.frames[0].contexts) != 1:
        raise Violation("c11_context_missing", "holder frame has contexts %r" % (st.frames and st.frames[0].contexts,), {})
    c = st.frames[0].contexts[0]
    exp = model(chain_objs, unwrap, elab, head, head_mgr, setobj_objs)
    got_calls = [x for x in calls if not (x[0] == "E" and x[1] == "gcm")]
    exp_calls = [x for x in exp["calls"] if not (x[0] == "E" and x[1] == "gcm")]
    compare(ctx, "extract", c, st.error, got_calls, exp, exp_calls, marker_child, marker_stack, head, head_mgr)
    g.close()
    # (b) bare fill_context outside any extract
    top, chain_objs, head_mgr, hook = fresh()
    g = holder(head_mgr if head else top)
    next(g)
    del calls[:]
    c2 = Context(obj=head_mgr if head else top, is_async=False)
    err = None
    try:
        with warnings.catch_warnings():
            warnings.simplefilter("ignore")
            stackscope.fill_context(c2)
    except RuntimeError as e:
        err = e
    exp = model(chain_objs, unwrap, elab, head, head_mgr, setobj_objs)
    got_calls = [x for x in calls if not (x[0] == "E" and x[1] == "gcm")]
    compare(ctx, "bare fill_context", c2, err, got_calls, exp, exp_calls, marker_child, marker_stack, head, head_mgr)
    g.close()
    # (c) exiting path: observed from inside the exit of the outermost manager
    top, chain_objs, head_mgr, hook = fresh()
    seen = {}

    def inside_exit():
        del calls[:]
        with warnings.catch_warnings():
            warnings.simplefilter("ignore")
            seen["st"] = stackscope.extract_since(seen["frame"])
        seen["calls"] = [x for x in calls if not (x[0] == "E" and x[1] == "gcm")]

    def body(m):
        seen["frame"] = sys._getframe(0)
        with m:
            pass

    if head:
        hook[0] = inside_exit
    else:
        top.on_exit = inside_exit
    body(head_mgr if head else top)
    ctx.stat("exiting_path")
    st3 = seen["st"]
    c3 = st3.frames[0].contexts[-1] if st3.frames and st3.frames[0].contexts else None
    if c3 is None or not c3.is_exiting:
        raise Violation("c11_exiting_context_missing", "no exiting context seen from inside the exit: %r" % (c3,), {})
    exp3 = model(chain_objs, unwrap, elab, head, head_mgr, setobj_objs)
    if head:
        # exiting generator-based manager: the glue does not fill inner_stack
        if not any(a == "inner_stack" for i in range(NT) for a in elab[i]):
            exp3["inner"] = False
        elif exp3["obj"] is head_mgr:
            exp3["inner"] = False
    compare(ctx, "exiting", c3, st3.error, seen["calls"], exp3, [x for x in exp3["calls"] if not (x[0] == "E" and x[1] == "gcm")], marker_child, marker_stack, head, head_mgr, exiting=True)
    ctx.cover(repr((tuple(chain), tuple(unwrap), tuple(tuple(map(str, e)) for e in elab), head, exp["error"], exp["hide"])))
    ctx.log("c11", tuple(chain), head, exp["error"], exp["hide"], len(exp["calls"]))
    ctx.sample = ctx.case


def compare(ctx, where, c, err, got_calls, exp, exp_calls, marker_child, marker_stack, head, head_mgr, exiting=False):
    if exp["error"]:
        ctx.stat("cycle_guard")
        if err is None or "unwrapped more than 100 times" not in str(err):
            raise Violation("c11_guard_error_missing", "%s: expected the 100-step error, got error=%r" % (where, err), {"where": where})
    else:
        if err is not None:
            raise Violation("c11_unexpected_error", "%s: error=%r" % (where, err), {"where": where})
    if got_calls != exp_calls:
        n = 0
        while n < min(len(got_calls), len(exp_calls)) and got_calls[n] == exp_calls[n]:
            n += 1
        raise Violation(
            "c11_hook_call_sequence",
            "%s: hook calls differ from the documented loop at call %d: got %r..., expected %r... (lengths %d / %d)"
            % (where, n, got_calls[n : n + 4], exp_calls[n : n + 4], len(got_calls), len(exp_calls)),
            {"where": where},
        )
    if c.obj is not exp["obj"]:
        raise Violation("c11_final_obj", "%s: final obj %r, model %r" % (where, c.obj, exp["obj"]), {"where": where})
    if bool(c.hide) != exp["hide"]:
        if exp["hide"]:
            ctx.stat("pruned")
        raise Violation("c11_hide", "%s: hide=%r, model %r" % (where, c.hide, exp["hide"]), {"where": where})
    if exp["hide"]:
        ctx.stat("pruned")
    has_children = bool(c.children)
    if has_children != exp["children"]:
        raise Violation("c11_children_not_reset", "%s: children=%r, model says present=%r" % (where, c.children, exp["children"]), {"where": where})
    is_gcm_final = head and exp["obj"] is head_mgr
    if not is_gcm_final:
        has_inner = c.inner_stack is not None
        if has_inner != exp["inner"]:
            raise Violation("c11_inner_stack_not_reset", "%s: inner_stack=%r, model says present=%r" % (where, c.inner_stack, exp["inner"]), {"where": where})
        if exp["desc"] not in (None, "gcm") and c.description != exp["desc"]:
            raise Violation("c11_description", "%s: description=%r, model %r" % (where, c.description, exp["desc"]), {"where": where})

"""C20 - fallback analysis is a sound ordered over-approximation; failures only warn."""
from ..world import progworld, observe

PROPERTY = "C20"
LEVEL = "fault_enumeration"
RULE = (
    "program world (see C01) observed at every suspension: (off-legs) with set_trickery_enabled(False), reported list R vs shadow T: T's non-exiting "
    "managers are an ordered sub-sequence of R with right obj/is_async, R has an is_exiting entry iff an exit is in progress, every other entry is the manager "
    "the frame is entering or exiting; (fault-legs) for every suspension, an exception is injected at EVERY k-th dynamic call of analyze_with_blocks / "
    "inspect_frame / currently_exiting_context of the fault-free extraction (complete single-fault enumeration per suspension): exactly a warning, no exception, "
    "no Stack.error, same frames, same relation. distinct = (python, #active, #extras, exiting?, entering?) and (step, k, #calls) cells"
)
ASSUMPTIONS = [
    "C-implemented managers (threading.Lock) are excluded: set_trickery_enabled's documentation states the referents analysis cannot see managers whose __exit__ is not a Python function named __exit__",
    "same program world and shadow as C01; F.entering is set by the managers themselves (may stay set if an __aenter__ is abandoned by close(): more permissive, never stricter)",
    "the thread-switching leg of set_trickery_enabled is in the threads leg (see DESIGN.md)",
]
REAL_VS_STUB = {"real": ["stackscope", "gc.get_referents", "CPython of each leg"], "stub": ["generated programs", "shadow managers", "driver", "injected RuntimeError at analysis steps"]}
RARE_PROBES = ["c20_extras_seen", "trickery_step_raises:inspect_frame", "trickery_step_raises:analyze_with_blocks", "trickery_step_raises:currently_exiting_context"]
LEGS = []
for py, nq in (("3.12", 9000), ("3.11", 4500), ("3.10", 4500), ("3.9", 4500)):
    tag = py.replace(".", "")
    LEGS.append({"name": "off" + tag, "python": py, "quick": nq, "thorough": nq * 25, "quick_s": 40, "thorough_s": 300, "params": {"mode": "off"}})
    LEGS.append({"name": "fault" + tag, "python": py, "quick": nq // 9, "thorough": nq * 2, "quick_s": 40, "thorough_s": 300, "params": {"mode": "fault"}})


def run(ctx):
    progworld.run_program(ctx, ["c20"], force={"probe": False, "passive": False}, probe=False, battery_cls=observe.C20Battery)


def reset():
    from stackscope import _lowlevel as ll

    ll.set_trickery_enabled(None)

"""C20 - fallback analysis is a sound ordered over-approximation; failures only warn."""
from ..world import progworld, observe

PROPERTY = "C20"
LEVEL = "fault_enumeration"
RULE = (
    "program world (see C01) observed at every suspension: (off-legs) with set_trickery_enabled(False), reported list R vs shadow T: T's non-exiting "
    "managers are an ordered sub-sequence of R with right obj/is_async, R has an is_exiting entry iff an exit is in progress, every other entry is the manager "
    "the frame is entering or exiting; (fault-legs) for every suspension, an exception is injected at EVERY k-th dynamic call of analyze_with_blocks / "
    "inspect_frame / currently_exiting_context of the fault-free extraction (complete single-fault enumeration per suspension): exactly a warning, no exception, "
    "no Stack.error, same frames, same relation. distinct = (python, #active, #extras, exiting?, entering?) and (step, k, #calls) cells"
)
ASSUMPTIONS = [
    "C-implemented managers (threading.Lock) are excluded: set_trickery_enabled's documentation states the referents analysis cannot see managers whose __exit__ is not a Python function named __exit__",
    "same program world and shadow as C01; F.entering is set by the managers themselves (may stay set if an __aenter__ is abandoned by close(): more permissive, never stricter)",
    "switch legs: thread switches at operation granularity (baton); pre-emption inside _check_trickery_available itself is not simulated",
]
REAL_VS_STUB = {"real": ["stackscope", "gc.get_referents", "CPython of each leg"], "stub": ["generated programs", "shadow managers", "driver", "injected RuntimeError at analysis steps"]}
RARE_PROBES = ["c20_extras_seen", "trickery_step_raises:inspect_frame", "trickery_step_raises:analyze_with_blocks", "trickery_step_raises:currently_exiting_context"]
LEGS = []
for py, nq in (("3.12", 9000), ("3.11", 4500), ("3.10", 4500), ("3.9", 4500)):
    tag = py.replace(".", "")
    LEGS.append({"name": "off" + tag, "python": py, "quick": nq, "thorough": nq * 25, "quick_s": 40, "thorough_s": 300, "params": {"mode": "off"}})
    LEGS.append({"name": "fault" + tag, "python": py, "quick": nq // 9, "thorough": nq * 2, "quick_s": 40, "thorough_s": 300, "params": {"mode": "fault"}})


LEGS.append({"name": "switch312", "python": "3.12", "quick": 1500, "thorough": 40000, "quick_s": 40, "thorough_s": 300, "params": {"mode": "switch"}, "run_timeout": 90})
LEGS.append({"name": "switch39", "python": "3.9", "quick": 600, "thorough": 15000, "quick_s": 30, "thorough_s": 200, "params": {"mode": "switch"}, "run_timeout": 90})


def run_switch(ctx):
    """(c) sequences of set_trickery_enabled(True/False/None) interleaved with extractions on
    2-3 baton threads: every extraction that starts after a set has returned uses that mode."""
    import contextlib
    import threading

    import stackscope
    from stackscope import _lowlevel as ll
    from ..kernel import Violation
    from ..sched.baton import Baton

    t = ctx.tape

    class M(object):
        def __enter__(self):
            return self

        def __exit__(self, *a):
            return False

    def holder():
        with M() as target_name:
            yield 1

    g = holder()
    next(g)
    n = 2 + t.choose(2)
    baton = Baton(t, ctx)
    state = {"mode": None}  # model: the last value set (None = auto-detect = trickery on CPython)
    problems = []
    trace = []
    plans = []
    for i in range(n):
        plans.append([(t.choose(4), t.choose(3)) for _ in range(2 + t.choose(5))])
    ctx.case = {"threads": n, "plans": plans}

    def worker(plan, name):
        def fn():
            for (op, val) in plan:
                baton.yield_("op")
                if op == 0:
                    v = (True, False, None)[val]
                    ll.set_trickery_enabled(v)
                    state["mode"] = v
                    trace.append((name, "set", str(v)))
                else:
                    expect_trickery = state["mode"] is not False
                    st = stackscope.extract(g)
                    c = st.frames[0].contexts
                    got_trickery = bool(c) and c[0].start_line is not None
                    trace.append((name, "extract", got_trickery))
                    ctx.stat("switch_extractions")
                    if len(c) != 1 or not isinstance(c[0].obj, M):
                        problems.append(("c20_switch_contexts", "contexts %r" % (c,)))
                    elif got_trickery != expect_trickery:
                        problems.append((
                            "c20_mode_not_applied",
                            "thread %s: extraction started after set_trickery_enabled(%r) returned, but used the %s analysis; trace %r"
                            % (name, state["mode"], "trickery" if got_trickery else "referents", trace[-6:]),
                        ))

        return fn

    try:
        for i in range(n):
            baton.spawn("T%d" % i, worker(plans[i], "T%d" % i))
        baton.run()
    finally:
        ll.set_trickery_enabled(None)
        g.close()
    ctx.log("switch", tuple(trace))
    ctx.cover(repr(("switch", tuple((a, b) for (_, a, b) in trace)[:10])))
    ctx.sample = {"trace": trace[:30]}
    if problems:
        raise Violation(problems[0][0], problems[0][1], {"trace": trace[:40]})


def run(ctx):
    if ctx.params.get("mode") == "switch":
        return run_switch(ctx)
    progworld.run_program(ctx, ["c20"], force={"probe": False, "passive": False}, probe=False, battery_cls=observe.C20Battery)


def reset():
    from stackscope import _lowlevel as ll

    ll.set_trickery_enabled(None)

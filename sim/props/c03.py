"""C03 - a suspended await/yield-from chain extracts as the path an exception would take."""
import gc
import sys
import traceback
import warnings

from ..kernel import Violation
from ..world import chains

PROPERTY = "C03"
LEVEL = "exploration"
RULE = (
    "one case = a tape-generated chain of depth 0-6 whose links are drawn from {await coroutine, await generator-based coroutine, await object whose __await__ "
    "returns a coroutine wrapper / is a generator function / returns a generator, yield from generator, async for / __anext__ / asend / in-flight athrow / in-flight aclose "
    "on a native async generator}, levels optionally inside with/async with, except-handler or finally bodies, ending in a trap or a non-frame leaf; for EVERY suspension "
    "point of the chain the program is re-run (same tape) up to that point, extract(x) is taken and a Probe(BaseException) is thrown in: the traceback's frames after the "
    "driver's must be the same frame objects with the same line numbers as Stack.frames. distinct = (python, root kind, tuple of link kinds, end kind, suspension index)"
)
ASSUMPTIONS = [
    "CPython <= 3.11 truncates the traceback of a thrown exception at a frame suspended inside an except handler: there the oracle is only a prefix of the chain (counted as oracle_truncated_at_except_handler)","no generated body catches BaseException and no manager swallows, so the thrown Probe unwinds the whole chain", "replaying the same tape rebuilds the same chain (checked: program text must be identical)"]
REAL_VS_STUB = {"real": ["stackscope", "CPython coroutine/generator/async generator machinery of each leg"], "stub": ["generated chains", "awaitable wrapper classes", "plain-iterator leaf"]}
RARE_PROBES = ["leaf_end", "athrow_inflight", "aclose_inflight", "exhausted_checked"]
LEGS = [
    {"name": "chain312", "python": "3.12", "quick": 16000, "thorough": 400000, "quick_s": 40, "thorough_s": 400},
    {"name": "chain311", "python": "3.11", "quick": 6000, "thorough": 150000, "quick_s": 30, "thorough_s": 300},
    {"name": "chain310", "python": "3.10", "quick": 6000, "thorough": 150000, "quick_s": 30, "thorough_s": 300},
    {"name": "chain39", "python": "3.9", "quick": 6000, "thorough": 150000, "quick_s": 30, "thorough_s": 300},
]


def start(world):
    """Instantiate the chain; returns (W, root, kind, stepper) where stepper() advances to the next suspension.
    stepper returns ('susp', value) | ('done', how)."""
    W, ns = world.instantiate()
    kind = "agen" if "async def c0" in world.text and is_agen(ns["c0"]) else None
    root = ns["c0"](W)
    st = {"op": None}

    if hasattr(root, "asend"):
        def step():
            if st["op"] is None:
                st["op"] = root.asend(None)
            try:
                v = st["op"].send(None)
            except StopIteration as e:
                st["op"] = None
                return ("agen_yield", e.value)
            except StopAsyncIteration:
                return ("done", "stopasync")
            except Exception:
                return ("done", "raise")
            return ("susp", v)

        def throw(exc):
            return st["op"].throw(exc)

        return W, root, "agen", step, throw

    def step():
        try:
            v = root.send(None)
        except StopIteration as e:
            return ("done", "return")
        except Exception:
            return ("done", "raise")
        return ("susp", v)

    def throw(exc):
        return root.throw(exc)

    return W, root, "sendable", step, throw


def is_agen(fn):
    import inspect

    return inspect.isasyncgenfunction(fn)


def run(ctx):
    import stackscope

    world = chains.ChainWorld(ctx.tape, ctx)
    ctx.case["program"] = world.text
    was = gc.isenabled()
    gc.disable()
    try:
        # how many suspension points does the chain have?
        W, root, rk, step, throw = start(world)
        n = 0
        while n < 20:
            r = step()
            if r[0] != "susp":
                break
            n += 1
        try:
            root.close() if not hasattr(root, "aclose") else None
        except BaseException:
            pass
        W.closed = True
        ctx.stat("suspension_points", n)
        if "AwLeaf" in world.text or "leaf_iter" in world.text:
            ctx.stat("leaf_end")
        for tag in ("athrow", "aclose"):
            if ".%s(" % tag in world.text:
                ctx.stat(tag + "_inflight")
        for target in range(n):
            W, root, rk, step, throw = start(world)
            for _ in range(target + 1):
                r = step()
            assert r[0] == "susp", r
            check_suspended(ctx, world, W, root, rk, throw, target)
            W.closed = True
        # exhausted target -> no frames
        W, root, rk, step, throw = start(world)
        for _ in range(40):
            r = step()
            if r[0] == "done":
                break
        if r[0] == "done":
            st = stackscope.extract(root)
            ctx.stat("exhausted_checked")
            if st.frames or st.root is not root:
                raise Violation("c03_exhausted_has_frames", "extract() of an exhausted %s has frames %r" % (type(root).__name__, st.frames), {})
        W.closed = True
    finally:
        world.close()
        if was:
            gc.enable()
    ctx.sample = {"program": world.text, "suspension_points": n}


def check_suspended(ctx, world, W, root, rk, throw, idx):
    import stackscope

    with warnings.catch_warnings():
        warnings.simplefilter("ignore")
        st = stackscope.extract(root)
        st_nc = stackscope.extract(root, with_contexts=False)
    frames = [f.pyframe for f in st.frames]
    linenos = [f.lineno for f in st.frames]
    leaf = st.leaf
    err = st.error
    if st.root is not root:
        raise Violation("c03_root", "Stack.root is not the extracted object", {})
    if [f.pyframe for f in st_nc.frames] != frames or [f.lineno for f in st_nc.frames] != linenos:
        raise Violation("c03_with_contexts_changes_frames", "with_contexts=False gives different frames", {"suspension": idx})
    if any(f.contexts for f in st_nc.frames):
        raise Violation("c03_contexts_present_without_request", "contexts filled with with_contexts=False", {})
    # the oracle: throw a BaseException in and read its traceback
    try:
        throw(chains.Probe())
    except chains.Probe as e:
        tb = e.__traceback__
    except BaseException as e:
        raise Violation("c03_oracle_failed", "harness: thrown Probe turned into %r" % (e,), {})
    else:
        raise Violation("c03_oracle_failed", "harness: thrown Probe was swallowed", {})
    entries = []
    while tb is not None:
        entries.append((tb.tb_frame, tb.tb_lineno))
        tb = tb.tb_next
    me = sys._getframe(0)
    # drop the driver's own frames (this function and the `throw` closure)
    while entries and (entries[0][0] is me or entries[0][0].f_code.co_name == "throw" and entries[0][0].f_code.co_filename == __file__):
        entries.pop(0)
    # a plain-iterator leaf raises from its own throw() method: that frame is the leaf's, not part of the stack
    if entries and entries[-1][0].f_code.co_name == "throw" and entries[-1][0].f_code.co_filename == chains.__file__.replace(".pyc", ".py"):
        entries.pop()
    oracle_frames = [e[0] for e in entries]
    oracle_lines = [e[1] for e in entries]
    names = [f.f_code.co_name for f in oracle_frames]
    ctx.log("chain", idx, tuple(names), tuple(oracle_lines))
    ctx.cover(("c03", sys.version_info[:2], rk, tuple(world_links(world)), idx, len(oracle_frames), leaf is not None))
    if err is not None:
        raise Violation("c03_error", "extract(x).error = %r" % (err,), {"suspension": idx})
    if sys.version_info < (3, 12) and len(oracle_frames) < len(frames) and ("except W.E" in world.text or ".aclose()" in world.text):
        # CPython <= 3.11: when an exception is thrown into a chain in which some
        # frame is currently handling another exception (suspended inside an except
        # handler, or in a finally run by aclose()), the traceback records the frames
        # below it sparsely or not at all, although they are unwound.  The oracle is
        # then only an ordered sub-sequence of the chain starting at the root.
        ctx.stat("oracle_sparse_below_handler")
        j = 0
        keep_f, keep_l = [], []
        for fr, ln in zip(frames, linenos):
            if j < len(oracle_frames) and fr is oracle_frames[j]:
                keep_f.append(fr)
                keep_l.append(ln)
                j += 1
        if keep_f and keep_f[0] is frames[0]:
            frames, linenos = keep_f, keep_l
    if len(frames) != len(oracle_frames) or any(a is not b for a, b in zip(frames, oracle_frames)):
        raise Violation(
            "c03_frames_differ_from_traceback",
            "suspension %d: extract(x).frames = %r, an exception thrown in unwinds %r"
            % (idx, [f.f_code.co_name for f in frames], names),
            {"suspension": idx, "extracted": [f.f_code.co_name for f in frames], "traceback": names},
        )
    if linenos != oracle_lines:
        raise Violation(
            "c03_linenos_differ_from_traceback",
            "suspension %d: Frame.lineno %r vs tb_lineno %r (%r)" % (idx, linenos, oracle_lines, names),
            {"suspension": idx},
        )
    # leaf: the non-frame awaitable / iterator that ends the chain, or None
    exp_leaf = None
    for tid, it in W.leaves.items():
        if it.state == 1:
            exp_leaf = it
    if exp_leaf is None:
        if leaf is not None:
            raise Violation("c03_leaf_unexpected", "leaf=%r but frames tell the whole story" % (leaf,), {"suspension": idx})
    elif leaf is not exp_leaf:
        raise Violation("c03_leaf_wrong", "leaf=%r, the chain ends in %r" % (leaf, exp_leaf), {"suspension": idx})


def handler_level(world, frame):
    """Is this frame running a generated level whose body continues inside an except handler?"""
    if frame.f_code.co_filename != world.filename:
        return False
    name = frame.f_code.co_name
    inside = False
    for line in world.text.splitlines():
        if line.startswith("def ") or line.startswith("async def "):
            inside = line.split("def ", 1)[1].startswith(name + "(")
        elif inside and line.strip().startswith("except W.E"):
            return True
    return False


def world_links(world):
    out = []
    for line in world.text.splitlines():
        line = line.strip()
        for key in ("AwWrapper", "AwGen(", "AwReturnsGen", "async for", "__anext__", ".asend(None)", "athrow", "aclose", "yield from", "AwLeaf", "leaf_iter"):
            if key in line:
                out.append(key)
                break
        else:
            if line.startswith("await W.link"):
                out.append("await")
    return out

"""C17 - library glue is installed exactly once, in time, module-provided beats built-in."""
import sys
import threading
import types
import warnings

from ..kernel import Violation
from ..sched.baton import Baton, SimLock

PROPERTY = "C17"
LEVEL = "exploration"
RULE = (
    "one case = a tape-drawn history (<= 14 operations) over the real sys.modules with fake module names: add module {with module glue, with built-in glue pending, both, neither, glue that raises}, "
    "remove, re-add as a new module object, replace in place, register built-in glue late, glue that itself imports another glue-bearing library in the middle of the pass, extract; single-threaded histories and histories in which 2-4 baton threads enter extract concurrently while "
    "glue functions hand the baton over in the middle of their work (glue_lock replaced by a baton-aware lock). Model: at the return of every extract that started after module m appeared, "
    "the right kind of glue for m ran and finished exactly once, never both kinds, never twice; a raising glue gives exactly one RuntimeWarning and later modules' glue still ran. "
    "distinct = operation-kind sequence + schedule signature"
)
ASSUMPTIONS = [
    "thread switches happen at the world's yield points (inside glue functions, at extract entry) and wherever a thread would block on glue_lock; pre-emption between two bytecodes of add_glue_as_needed itself is not simulated",
    "glue_lock is substituted by a baton-aware lock with the same mutual-exclusion semantics (a real Lock would deadlock the cooperative scheduler)",
]
REAL_VS_STUB = {"real": ["stackscope._glue.add_glue_as_needed / builtin_glue / builtin_glue_pending", "the real sys.modules", "real threads"], "stub": ["fake modules _vsim_*", "glue functions that count and yield", "baton scheduler", "SimLock in place of glue_lock"]}
RARE_PROBES = ["module_appeared_during_glue_pass", "remove_then_add_same_len", "replace_in_place", "raising_glue_ran", "both_kinds_present", "late_builtin_registration", "lock_contended", "threads"]
LEGS = [
    {"name": "hist312", "python": "3.12", "quick": 20000, "thorough": 400000, "quick_s": 40, "thorough_s": 400, "run_timeout": 90, "params": {"threads": False}},
    {"name": "thr312", "python": "3.12", "quick": 6000, "thorough": 100000, "quick_s": 40, "thorough_s": 400, "run_timeout": 90, "params": {"threads": True}},
    {"name": "hist39", "python": "3.9", "quick": 1500, "thorough": 40000, "quick_s": 30, "thorough_s": 300, "run_timeout": 90, "params": {"threads": False}},
    {"name": "thr39", "python": "3.9", "quick": 600, "thorough": 15000, "quick_s": 30, "thorough_s": 300, "run_timeout": 90, "params": {"threads": True}},
]

NAMES = ["_vsim_a", "_vsim_b", "_vsim_c", "_vsim_d", "_vsim_e"]


class GlueFn(object):
    """A glue function that counts its calls, may hand the baton over mid-way, may raise."""

    def __init__(self, kind, name, raising, baton):
        self.kind = kind  # 'module' | 'builtin'
        self.name = name
        self.raising = raising
        self.baton = baton
        self.started = 0
        self.finished = 0
        self.on_run = None  # world callback: a glue function that imports another library

    def __call__(self):
        self.started += 1
        if self.on_run is not None:
            cb, self.on_run = self.on_run, None
            cb()
        if self.baton is not None:
            self.baton.yield_("glue-%s-%s" % (self.kind, self.name))
        self.finished += 1
        if self.raising:
            raise ValueError("glue for %s fails" % self.name)


def cleanup():
    from stackscope import _glue

    for n in NAMES:
        sys.modules.pop(n, None)
        _glue.builtin_glue_pending.pop(n, None)


def reset_cache():
    from stackscope import _glue

    kd = _glue.add_glue_as_needed.__kwdefaults__
    for k in kd:
        kd[k][0] = 0 if isinstance(kd[k][0], int) else ()


def run(ctx):
    import stackscope
    from stackscope import _glue

    t = ctx.tape
    threaded = bool(ctx.params.get("threads"))
    cleanup()
    stackscope.extract(None)  # settle everything that is really imported
    baton = Baton(t, ctx) if threaded else None
    real_lock = _glue.glue_lock
    simlock = None
    if threaded:
        simlock = SimLock(baton)
        _glue.glue_lock = simlock
    # model
    inst = {}  # name -> {'fn': GlueFn or None, 'since': op index}
    pending = {}  # name -> GlueFn (built-in glue not yet run)
    all_fns = []
    history = []
    problems = []
    nops = 3 + t.choose(12)
    ops = []
    for _ in range(nops):
        op = ("add", "extract", "remove", "builtin", "replace", "readd")[t.weighted([5, 5, 2, 2, 1, 2])]
        ops.append((op, NAMES[t.choose(len(NAMES))], t.choose(3), t.choose(8) == 1, NAMES[t.choose(len(NAMES))] if t.choose(4) == 3 else None))
    ops.append(("extract", None, 0, False, None))
    ops.append(("extract", None, 0, False, None))
    ctx.case = {"ops": ops, "threaded": threaded}

    def mk_module(name, with_glue, raising):
        m = types.ModuleType(name)
        fn = None
        if with_glue:
            fn = GlueFn("module", name, raising, baton)
            m._stackscope_install_glue_ = fn
            all_fns.append(fn)
        return m, fn

    def do_add(name, variant, raising, importer=None):
        if name in sys.modules:
            return False
        m, fn = mk_module(name, variant != 0, raising)
        sys.modules[name] = m
        inst[name] = {"fn": fn}
        history.append(("add", name, bool(fn), raising))
        if fn is not None and name in pending:
            ctx.stat("both_kinds_present")
        if fn is not None and importer is not None:
            # this library's glue imports another library (which brings glue of its own) while it runs,
            # i.e. in the middle of add_glue_as_needed's pass over sys.modules
            other = importer

            def imports_other():
                if other in sys.modules:
                    return
                has_builtin = other in pending
                m2, fn2 = mk_module(other, not has_builtin, False)
                sys.modules[other] = m2
                inst[other] = {"fn": fn2}
                history.append(("add-during-glue", other, bool(fn2)))
                ctx.stat("module_appeared_during_glue_pass")
                # it appeared after this extraction started: its glue may run now or in the next extraction
                for f in (fn2, pending.get(other)):
                    if f is not None:
                        f.flex = True

            fn.on_run = imports_other
        return True

    def do_remove(name):
        if name in sys.modules and name in inst:
            del sys.modules[name]
            del inst[name]
            history.append(("remove", name))
            return True
        return False

    def do_builtin(name, raising):
        if name in _glue.builtin_glue_pending or name in pending:
            return
        fn = GlueFn("builtin", name, raising, baton)
        all_fns.append(fn)
        history.append(("builtin", name, raising))
        if name in sys.modules:
            ctx.stat("late_builtin_registration")
            # documented: runs now if the module is already imported
            try:
                _glue.builtin_glue(name)(fn)
            except ValueError:
                pass
            if fn.started != 1:
                problems.append(("c17_late_builtin_not_run", "builtin_glue(%r) registered after import did not run at once" % name))
            fn.expected = 1
        else:
            _glue.builtin_glue(name)(fn)
            pending[name] = fn

    def expected_after_extract():
        """Apply the documented rule to the model; returns the glue fns that must have run (in sys.modules order)."""
        ran = []
        for name in list(sys.modules):
            if name not in NAMES:
                continue
            b = pending.pop(name, None)
            i = inst.get(name)
            mfn = i["fn"] if i else None
            if mfn is not None and not getattr(mfn, "consumed", False):
                mfn.consumed = True
                mfn.expected = 1
                ran.append(mfn)
                if b is not None:
                    b.expected = 0  # module-provided beats built-in: never both
                    b.dropped = True
            elif b is not None:
                b.expected = 1
                ran.append(b)
        return ran

    def check_counts(where):
        for fn in all_fns:
            exp = getattr(fn, "expected", 0)
            if getattr(fn, "flex", False):
                fn.flex = False
                if fn.started == 1 and fn.finished == 1 and exp == 0:
                    # ran already during the extraction in which its module appeared: fine
                    fn.expected = 1
                    fn.consumed = True
                    if fn.kind == "builtin":
                        pending.pop(fn.name, None)
                    ctx.stat("late_module_glue_ran_in_same_extraction")
                    continue
            if fn.started != exp or fn.finished != exp:
                kind = "c17_glue_ran_twice" if fn.started > max(exp, 1) else ("c17_glue_not_installed" if fn.started < exp else "c17_glue_ran_unexpectedly")
                if fn.started == exp and fn.finished != exp:
                    kind = "c17_glue_not_finished_in_time"
                problems.append((
                    kind,
                    "%s: %s glue for %s started %d / finished %d times, expected %d (history %r)"
                    % (where, fn.kind, fn.name, fn.started, fn.finished, exp, history),
                ))
                return

    def do_extract(where):
        before = len(sys.modules)
        ran = expected_after_extract()
        nraise = sum(1 for f in ran if f.raising)
        with warnings.catch_warnings(record=True) as wl:
            warnings.simplefilter("always")
            st = stackscope.extract(None)
        history.append(("extract",))
        rw = [w for w in wl if issubclass(w.category, RuntimeWarning) and "glue" in str(w.message)]
        if nraise:
            ctx.stat("raising_glue_ran", nraise)
        if len(rw) != nraise:
            problems.append(("c17_warning_count", "%s: %d glue functions raised, %d RuntimeWarnings: %r" % (where, nraise, len(rw), [str(w.message)[:60] for w in rw])))
        check_counts(where)

    try:
        if not threaded:
            last_len_at_extract = None
            removed_since = False
            for (op, name, variant, raising, importer) in ops:
                if op == "add":
                    if do_add(name, variant, raising, importer if importer != name else None) and removed_since:
                        ctx.stat("remove_then_add_same_len")
                elif op == "remove":
                    if do_remove(name):
                        removed_since = True
                elif op == "readd":
                    if do_remove(name):
                        do_add(name, variant, raising)
                        ctx.stat("remove_then_add_same_len")
                elif op == "replace":
                    if name in sys.modules and name in inst:
                        m, fn = mk_module(name, variant != 0, raising)
                        sys.modules[name] = m
                        inst[name] = {"fn": fn}
                        history.append(("replace", name, bool(fn)))
                        ctx.stat("replace_in_place")
                elif op == "builtin":
                    do_builtin(name, raising)
                else:
                    do_extract("extract #%d" % len(history))
                    removed_since = False
                if problems:
                    break
        else:
            ctx.stat("threads")
            # set the stage single-threaded, then let 2-4 threads extract at once
            nthreads = 2 + t.choose(3)
            for (op, name, variant, raising, importer) in ops:
                if op == "add":
                    do_add(name, variant, raising)
                elif op == "builtin":
                    do_builtin(name, raising)
            ran = expected_after_extract()
            nraise = sum(1 for f in ran if f.raising)
            results = []

            def worker():
                baton.yield_("before-extract")
                # every glue due at this point must be complete when extract returns
                stackscope.extract(None)
                for fn in ran:
                    if fn.finished != 1 or fn.started != 1:
                        results.append((
                            "c17_glue_not_finished_in_time" if fn.started == 1 else ("c17_glue_ran_twice" if fn.started > 1 else "c17_glue_not_installed"),
                            "thread %s: extract returned while %s glue for %s has started %d / finished %d times"
                            % (threading.current_thread().name, fn.kind, fn.name, fn.started, fn.finished),
                        ))
                        break
                baton.yield_("after-extract")

            with warnings.catch_warnings(record=True) as wl:
                warnings.simplefilter("always")
                for i in range(nthreads):
                    baton.spawn("T%d" % i, worker)
                baton.run()
            problems.extend(results)
            check_counts("after all threads")
            if simlock.contended:
                ctx.stat("lock_contended", simlock.contended)
            rw = [w for w in wl if issubclass(w.category, RuntimeWarning) and "glue" in str(w.message)]
            if len(rw) != nraise and not problems:
                problems.append(("c17_warning_count", "%d glue functions raised, %d RuntimeWarnings" % (nraise, len(rw))))
    finally:
        _glue.glue_lock = real_lock
        cleanup()
        reset_cache()
    sig = tuple(o[0] for o in ops)
    ctx.log("c17", sig, tuple(x[0] for x in baton.trace) if baton else (), len(problems))
    ctx.cover(repr((threaded, sig, tuple(x[0] for x in baton.trace)[:12] if baton else ())))
    ctx.sample = {"history": history, "threaded": threaded}
    if problems:
        kind, msg = problems[0]
        raise Violation(kind, msg, {"history": history})


def reset():
    try:
        cleanup()
        reset_cache()
    except Exception:
        pass

"""Simulator kernel: choice tape, run context, violation type, digests.

Python 3.9 compatible (the same code runs in every interpreter leg).

One integer decides everything: a run's only source of randomness is a Tape.
In generation mode the tape draws from random.Random(run_seed) and records
every value; in replay / shrinking mode the recorded list is the input and no
PRNG exists.  Logging never draws and never reads a clock.
"""
import hashlib
import random


def run_seed(verif_seed, prop, leg, index):
    h = hashlib.sha256(
        ("%d:%s:%s:%d" % (verif_seed, prop, leg, index)).encode()
    ).digest()
    return int.from_bytes(h[:8], "big")


class Tape(object):
    def __init__(self, seed=None, values=None):
        self.values = list(values) if values is not None else None
        self.rng = random.Random(seed) if values is None else None
        self.used = []
        self.pos = 0

    def choose(self, n, label=None):
        """Return an int in [0, n). n >= 1."""
        if n <= 1:
            # still consume a slot so deleting choices shifts consistently?
            # No: single-option choices consume nothing, so tapes stay short.
            return 0
        if self.values is None:
            v = self.rng.randrange(n)
        else:
            if self.pos < len(self.values):
                v = self.values[self.pos]
                if v >= n:
                    v = n - 1
                elif v < 0:
                    v = 0
            else:
                v = 0
            self.pos += 1
        self.used.append(v)
        return v

    def flip(self, num, den, label=None):
        """True with probability num/den. Value 0 (the shrink target) = False."""
        # map so that 0 -> False
        v = self.choose(den, label)
        return v >= den - num

    def pick(self, seq, label=None):
        return seq[self.choose(len(seq), label)]

    def weighted(self, weights, label=None):
        """weights: list of ints; index 0 should be the simplest alternative."""
        total = sum(weights)
        v = self.choose(total, label)
        acc = 0
        for i, w in enumerate(weights):
            acc += w
            if v < acc:
                return i
        return len(weights) - 1


class Violation(Exception):
    def __init__(self, kind, message, detail=None):
        Exception.__init__(self, "%s: %s" % (kind, message))
        self.kind = kind
        self.message = message
        self.detail = detail or {}


class HarnessError(Exception):
    pass


class Skip(Exception):
    """The drawn case is outside the generated space (too large, degenerate); not counted."""


SUT_PHASE_HOOK = [None]


class RunCtx(object):
    """Everything one simulated run may touch besides the code under test."""

    def __init__(self, prop, leg, tape, params=None):
        self.prop = prop
        self.leg = leg
        self.tape = tape
        self.params = params or {}
        self.events = []  # deterministic event log (ints / strs / tuples only)
        self.covers = set()  # coverage keys -> distinct_nontrivial
        self.faults = {}  # fault kind -> times it actually fired
        self.stats = {}  # misc counters (observations, steps, yields ...)
        self.case = {}  # human-readable description of the case (program text, schedule)
        self.sample = None
        self.violations = []

    def log(self, *ev):
        self.events.append(ev)

    # Where the run is, for the runner's post-mortem of a worker that hung: inside a call
    # into the code under test (then the call did not return), or in the world / harness.
    def in_sut(self, on):
        hook = SUT_PHASE_HOOK[0]
        if hook is not None:
            hook(1 if on else 0)

    def cover(self, key):
        self.covers.add(key if isinstance(key, str) else repr(key))

    def fault(self, kind, n=1):
        self.faults[kind] = self.faults.get(kind, 0) + n

    def stat(self, kind, n=1):
        self.stats[kind] = self.stats.get(kind, 0) + n

    def violate(self, kind, message, **detail):
        raise Violation(kind, message, detail)

    def digest(self):
        return hashlib.sha256(repr(self.events).encode("utf-8", "replace")).hexdigest()[:16]


def jsonable(x, depth=0):
    """Best-effort conversion of detail structures for replay files."""
    if depth > 8:
        return "..."
    if x is None or isinstance(x, (bool, int, float, str)):
        return x
    if isinstance(x, (list, tuple, set, frozenset)):
        xs = list(x)
        if isinstance(x, (set, frozenset)):
            xs = sorted(xs, key=repr)
        return [jsonable(v, depth + 1) for v in xs]
    if isinstance(x, dict):
        return dict((str(k), jsonable(v, depth + 1)) for k, v in sorted(x.items(), key=lambda kv: str(kv[0])))
    return "<%s>" % type(x).__name__

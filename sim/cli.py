"""CLI: ./check C10 [--tier quick|thorough] | ./check --replay FILE"""
import argparse
import os
import sys


def main(argv=None):
    ap = argparse.ArgumentParser(prog="check")
    ap.add_argument("prop", nargs="?")
    ap.add_argument("--tier", default=os.environ.get("VERIF_TIER", "quick"))
    ap.add_argument("--replay")
    ap.add_argument("--repo")
    ap.add_argument("--legs")
    args = ap.parse_args(argv)
    if args.repo:
        os.environ["VERIF_REPO"] = os.path.abspath(args.repo)
    from . import runner

    if args.replay:
        try:
            ok, info = runner.replay_file(args.replay)
        except runner.Harness as e:
            print("HARNESS-ERROR: %s" % e)
            return 2
        import json

        with open(args.replay) as f:
            rec = json.load(f)
        if ok:
            print("reproduced: %s" % json.dumps(info)[:2000])
            print("VIOLATION property=%s replay=%s" % (rec["property"], os.path.abspath(args.replay)))
            return 1
        print("did not reproduce: %s" % json.dumps(info)[:2000])
        return 0
    if not args.prop:
        ap.error("property id required")
    tier = args.tier if args.tier in ("quick", "thorough") else "quick"
    seed = int(os.environ.get("VERIF_SEED", "0") or 0)
    legs = args.legs.split(",") if args.legs else None
    try:
        return runner.check(args.prop.upper(), tier, seed, legs)
    except Exception:
        import traceback

        traceback.print_exc()
        print("HARNESS-ERROR: runner failed")
        return 2


if __name__ == "__main__":
    sys.exit(main())

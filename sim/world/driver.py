"""Build a generated program from the tape and drive its root task.

The driver loop is the scheduler of the program world: at every suspension the
tape decides send / throw / close.  Observers run at every suspension (on the
suspended root) and, through W.probe_hook, from inside running frames.
"""
import contextlib
import gc
import linecache
import sys
import types

from . import progen, rt

_counter = [0]

MAX_STEPS = 48


class Built(object):
    pass


def build(ctx, force=None, root_kind=None, text=None):
    tape = ctx.tape
    cfg = progen.Cfg(tape, **(force or {}))
    if text is not None:
        # a fixed-shape program (templates of the thread legs)
        prog = progen.Program()
        prog.text = text
        prog.root = progen.Func("f0", root_kind or "sync")
        prog.funcs = [prog.root]
    else:
        prog = progen.generate(tape, cfg, root_kind)
    _counter[0] += 1
    filename = "<vsim-%d>" % _counter[0]
    lines = prog.text.splitlines(True)
    linecache.cache[filename] = (len(prog.text), None, lines, filename)
    W = rt.World(tape, ctx)
    ns = {
        "W": W,
        "trap": rt.trap,
        "acm": rt.acm,
        "contextlib": contextlib,
        "types": types,
        "__name__": "vsim_program",
    }
    try:
        code = compile(prog.text, filename, "exec")
    except SyntaxError as e:
        from ..kernel import HarnessError

        raise HarnessError("generated program does not compile: %r\n%s" % (e, prog.text))
    exec(code, ns)
    b = Built()
    b.cfg = cfg
    b.prog = prog
    b.W = W
    b.ns = ns
    b.filename = filename
    W.prog = prog
    W.filename = filename
    W.eq_mode = bool(cfg.on.get("eqmgr"))
    W.falsy_mode = bool(cfg.on.get("falsymgr"))
    ctx.case["program"] = prog.text
    ctx.case["python"] = "%d.%d" % sys.version_info[:2]
    return b


def _finish(obj):
    """Close a generator-like for good.  A generated program may suspend again while it
    handles GeneratorExit (a trap in a finally block): close() then reports that the
    exit was ignored and leaves the object suspended one step further on, and the
    garbage collector would later try the same from a finaliser, in an order of its
    own.  Keep closing until it has really finished (bounded)."""
    for _ in range(200):
        try:
            if hasattr(obj, "aclose"):
                try:
                    obj.aclose().send(None)
                except StopIteration:
                    return True
                except RuntimeError as e:
                    if "ignored GeneratorExit" in str(e):
                        continue
                    return True
                except BaseException:
                    return True
                # aclose() itself suspended (awaiting a trap): go round again
                continue
            else:
                obj.close()
                return True
        except RuntimeError as e:
            if "ignored GeneratorExit" in str(e):
                continue
            return True
        except BaseException:
            return True
    return False


def cleanup(b, root=None):
    W = b.W
    W.closed = True
    W.probe_hook = None
    clean = True
    objs = list(reversed(W.genlikes))
    if root is not None:
        objs.insert(0, root)
    # the generators inside generator-based managers too (a manager that was entered but whose
    # exit never ran, or ran only in part)
    for m in reversed(list(getattr(W, "all_mgrs", ()))):
        g = getattr(m, "gen", None)
        if g is not None:
            objs.append(g)
    for obj in objs:
        if not _finish(obj):
            clean = False
    # a second round: finishing one object may have suspended another one again
    for obj in objs:
        if not _finished(obj):
            if not _finish(obj) or not _finished(obj):
                clean = False
    linecache.cache.pop(b.filename, None)
    return clean


def _finished(obj):
    for attr in ("gi_frame", "cr_frame", "ag_frame"):
        if hasattr(obj, attr):
            try:
                return getattr(obj, attr) is None
            except Exception:
                return True
    return True


class Driver(object):
    """Drives the root; calls on_suspend(W, root, kind) at every suspension.

    kind: 'await' (coroutine / agen suspended in an await reaching a trap),
          'yield' (generator / agen suspended at its own yield, or below via yield from).
    """

    def __init__(self, b, ctx, on_suspend=None, schedule=None):
        self.b = b
        self.W = b.W
        self.ctx = ctx
        self.on_suspend = on_suspend
        self.steps = 0
        self.schedule = []  # decoded for the replay file
        self.root = None

    def choose_action(self, first):
        t = self.W.tape
        if first:
            return ("send", None)
        c = t.weighted([14, 3, 1, 1, 1, 1])
        if c == 0:
            return ("send", None)
        if c == 1:
            return ("send", self.W.v())
        if c == 2:
            self.ctx.fault("throw_at_suspension")
            return ("throw", rt.E1)
        if c == 3:
            self.ctx.fault("throw_at_suspension")
            return ("throw", rt.E2)
        if c == 4:
            self.ctx.fault("throw_at_suspension")
            return ("throw", rt.Cancel)
        if self.W.agcm_exiting > 0:
            self.ctx.fault("throw_at_suspension")
            return ("throw", rt.Cancel)
        self.ctx.fault("close_at_suspension")
        return ("close", None)

    def run(self):
        W = self.W
        fn = self.b.ns[self.b.prog.root.name]
        kind = self.b.prog.root.kind
        root = fn(W)
        self.root = root
        W.root = root
        W.root_kind = kind
        was = gc.isenabled()
        gc.disable()
        try:
            if kind == "agen":
                self.run_agen(root)
            else:
                self.run_sendable(root)
        finally:
            self.ctx.case["schedule"] = self.schedule
            self.ctx.stat("driver_steps", self.steps)
            cleanup(self.b, root)
            if was:
                gc.enable()

    def _step(self, target, act):
        """Apply act to a send/throw/close-able target. Returns ('yield', v) | ('return', v) | ('raise', exc) | ('closed',)"""
        self.schedule.append((act[0], getattr(act[1], "__name__", act[1])))
        try:
            if act[0] == "send":
                v = target.send(act[1])
            elif act[0] == "throw":
                v = target.throw(act[1]("driver"))
            else:
                target.close()
                return ("closed",)
        except StopIteration as e:
            return ("return", e.value)
        except StopAsyncIteration:
            return ("stopasync",)
        except BaseException as e:
            return ("raise", e)
        return ("yield", v)

    def run_sendable(self, root):
        W = self.W
        first = True
        while self.steps < MAX_STEPS and not W.abort:
            act = self.choose_action(first)
            first = False
            self.steps += 1
            r = self._step(root, act)
            if r[0] != "yield":
                W.ev("root_" + r[0], type(r[1]).__name__ if r[0] == "raise" else (r[1] if r[0] == "return" and isinstance(r[1], int) else None))
                return
            W.ev("suspended", r[1][1] if isinstance(r[1], tuple) else None)
            if self.on_suspend is not None:
                self.on_suspend(W, root, "trap")
        W.ev("step_cap")

    def run_agen(self, ag):
        W = self.W
        first = True
        while self.steps < MAX_STEPS and not W.abort:
            # pick the next operation on the async generator
            t = W.tape
            if first:
                c = 0
                first = False
            else:
                c = t.weighted([14, 3, 1, 1, 1])
            if c == 0:
                op = ag.asend(None)
                self.schedule.append(("asend", None))
            elif c == 1:
                op = ag.asend(W.v())
                self.schedule.append(("asend", "v"))
            elif c == 2:
                self.ctx.fault("athrow")
                op = ag.athrow(rt.E1("driver"))
                self.schedule.append(("athrow", "E1"))
            elif c == 3:
                self.ctx.fault("athrow")
                op = ag.athrow(rt.Cancel("driver"))
                self.schedule.append(("athrow", "Cancel"))
            elif W.agcm_exiting > 0:
                self.ctx.fault("athrow")
                op = ag.athrow(rt.Cancel("driver"))
                self.schedule.append(("athrow", "Cancel"))
                c = 3
            else:
                self.ctx.fault("aclose")
                op = ag.aclose()
                self.schedule.append(("aclose", None))
            W.current_op = op
            first_inner = True
            while True:
                if self.steps >= MAX_STEPS or W.abort:
                    W.ev("step_cap")
                    return
                self.steps += 1
                act = self.choose_action(first_inner)
                if act[0] == "close":
                    act = ("send", None)
                first_inner = False
                r = self._step(op, act)
                if r[0] == "yield":
                    # suspended inside an await, the asend/athrow/aclose awaitable is in flight
                    W.ev("suspended", r[1][1] if isinstance(r[1], tuple) else None)
                    if self.on_suspend is not None:
                        self.on_suspend(W, ag, "trap_in_flight")
                    continue
                break
            W.current_op = None
            if r[0] == "return":
                # the async generator yielded a value: suspended at its own yield
                if c == 4:
                    W.ev("agen_closed")
                    return
                W.ev("agen_yield", r[1][1] if isinstance(r[1], tuple) else None)
                if self.on_suspend is not None and ag.ag_frame is not None:
                    self.on_suspend(W, ag, "agen_yield")
                continue
            W.ev("root_" + r[0], type(r[1]).__name__ if r[0] == "raise" else None)
            return
        W.ev("step_cap")

"""Runtime of the program world: frame records, shadow-reporting managers,
traps, probes.  Generated programs (progen.py) are exec'd with a namespace
holding `W` (the World), `trap`, `contextlib`, `types`.

Shadow model.  Every function invocation owns a record F (first statement of
the function).  Every manager is constructed through W and belongs to one F;
managers keep F.shadow = [Entry(mgr, is_async, state)] up to date themselves:
  * pushed (state 'entered') as the last action of __enter__/__aenter__
    (generator-based: immediately before the yield),
  * set to 'exiting' as the first action of __exit__/__aexit__ (generator
    based: first statement after the yield resumes),
  * removed in a finally as the last action of exit.
F.entering is the manager whose enter is in progress (needed by C20).
"""
import contextlib
import sys
import threading
import types


class E1(Exception):
    pass


class E2(Exception):
    pass


MAX_PROBES = 40


class Cancel(BaseException):
    """Thrown by the driver (cancellation-like fault)."""


EXC = {"E1": E1, "E2": E2, "Cancel": Cancel, "Exception": Exception, "KeyError": KeyError}


@types.coroutine
def trap(W, F, tid):
    """The only real suspension point of coroutines / async generators."""
    W.ev("trap", tid)
    F.pos = tid
    v = yield ("trap", tid)
    return v


from weakref import ref as weakref_ref


class Sentinel(object):
    __slots__ = ("sid", "__weakref__")

    def __init__(self, sid):
        self.sid = sid


class Entry(object):
    __slots__ = ("mgr", "is_async", "state", "k")

    def __init__(self, mgr, is_async, k):
        self.mgr = mgr
        self.is_async = is_async
        self.state = "entered"
        self.k = k


class FrameRec(object):
    def __init__(self, W, name, pyframe, owner=None):
        self.W = W
        self.id = len(W.frames)
        self.name = name
        self.pyframe = pyframe
        self.shadow = []
        self.entering = None
        self.owner = owner  # (owner F, k) for generator-based manager frames
        self.mgrs = {}
        self.pos = None
        self.done = False

    def find(self, mgr):
        for e in self.shadow:
            if e.mgr is mgr:
                return e
        return None

    # host protocol (a host is what a manager reports its lifecycle to)
    def h_entering(self, m):
        self.entering = m

    def h_enter_failed(self, m):
        if self.entering is m:
            self.entering = None

    def h_entered(self, m, is_async, k):
        if self.entering is m:
            self.entering = None
        self.shadow.append(Entry(m, is_async, k))

    def h_exiting(self, m):
        e = self.find(m)
        if e is not None:
            e.state = "exiting"

    def h_exited(self, m):
        e = self.find(m)
        if e is not None:
            self.shadow.remove(e)
        if self.entering is m:
            self.entering = None

    def __repr__(self):
        return "F%d:%s" % (self.id, self.name)


class Namespace(object):
    pass


class World(object):
    def __init__(self, tape, ctx):
        self.tape = tape
        self.ctx = ctx
        self.frames = []
        self.events = []
        self.counter = 0
        self.cond_calls = 0
        self.probe_hook = None  # callable(W, F, pid, where)
        self.ns = Namespace()
        self.ns.a = None
        self.ns.b = Namespace()
        self.ns.b.c = None
        self.ns.b.get3 = lambda a, b, c: self.lst
        self.d = {}
        self.i0 = 0
        self.key = "k"
        self.lst = [None, None, None, None]
        self.genlikes = []  # coroutine / generator / agen objects created by links
        self.kept = []
        self.sentinels = []
        self.mgr_serial = 0
        self.all_mgrs = []
        self.never = False
        self.closed = False
        # number of @asynccontextmanager generators between "resumed after the
        # yield" and "finished": while > 0 the driver does not close() the root
        # (CPython would close the asend/anext awaitable without resuming the
        # generator, __aexit__ would end while the generator's finally -- where
        # the shadow entry is popped -- has not run)
        self.agcm_exiting = 0
        self.E1 = E1
        self.E2 = E2
        self.Cancel = Cancel

    # -- deterministic world log (identity free) --
    def ev(self, *e):
        if not self.closed:
            self.events.append(e)

    def y(self, F, tid):
        """Value yielded by a generator-style suspension point."""
        self.ev("trap", tid)
        F.pos = tid
        return ("trap", tid)

    def helper(self, F, pid, depth):
        helper(self, F, pid, "body", depth)

    # -- choices made by the running program --
    def C(self):
        self.cond_calls += 1
        if self.cond_calls > 60:
            return 0
        return self.tape.choose(2)

    def R(self):
        self.cond_calls += 1
        if self.cond_calls > 60:
            return 0
        return self.tape.choose(3)

    def v(self):
        self.counter += 1
        return self.counter

    def keep(self, x):
        self.kept.append(x)

    def sent(self, sid):
        s = Sentinel(sid)
        self.sentinels.append(weakref_ref(s))
        return s

    def use(self, *args):
        return None

    def live_sentinels(self):
        out = []
        for r in self.sentinels:
            o = r()
            if o is not None:
                out.append(o)
        return out

    def get(self, i):
        return self.lst

    def get2(self, a, b):
        return self.lst

    # -- frame records --
    def frame(self, name, owner=None):
        f = sys._getframe(1)
        rec = FrameRec(self, name, f, owner)
        self.frames.append(rec)
        if owner is not None:
            host, k = owner
            m = host.mgrs.get(k)
            rec.gcm_mgr = m
            if m is not None:
                m_state = getattr(m, "_vs", None)
                if m_state is not None and m_state["F"] is None:
                    m_state["F"] = rec
                    # the manager's __enter__ is now in progress
                    host.h_entering(m)
        return rec

    def drive(self, F, sid, obj):
        """Thread worlds: run a coroutine / generator to completion from synchronous code."""
        F.pos = sid
        self.genlikes.append(obj)
        try:
            while True:
                obj.send(None)
        except StopIteration as e:
            return e.value

    def park_raise(self, F, pid):
        """Thread worlds: park, and raise when released."""
        self.rel()
        self.acq()
        raise E1("raised by the call the frame was parked in (%d)" % pid)

    def rbudget(self, n):
        """Bound on self-calls of generated functions (whole world)."""
        self._rb = getattr(self, "_rb", 0) + 1
        return self._rb <= n

    def rec_of(self, pyframe):
        for r in self.frames:
            if r.pyframe is pyframe:
                return r
        return None

    def link(self, F, sid, obj):
        """Record a generator-like object created at call site sid of F."""
        F.pos = sid
        self.genlikes.append(obj)
        return obj

    def at(self, F, sid):
        F.pos = sid
        return None

    # -- probes: observation of running frames --
    def probe(self, F, pid, where="body"):
        if self.closed:
            return
        self.ev("probe", pid)
        if self.probe_hook is not None:
            # bounded number of observations from inside running code per run (loops x recursion
            # x large functions would otherwise make single runs arbitrarily long)
            self.nprobes = getattr(self, "nprobes", 0) + 1
            if self.nprobes > MAX_PROBES:
                return
            self.probe_hook(self, F, pid, where)

    # -- managers --
    def m(self, F, k, kind, enter_script=(), exit_script=(), swallow=0, shape=0, host=None):
        cls = MGR_KINDS[kind]
        m = cls(self, F, k, enter_script, exit_script, swallow, shape)
        if host is not None:
            m.host = host
        m.host.mgrs[k] = m
        self.all_mgrs.append(m)
        return m

    def gcm(self, F, k, factory, *args, **kw):
        host = kw.get("host") or F
        """factory is a @contextmanager / @asynccontextmanager decorated generated function."""
        self.mgr_serial += 1
        st = {"F": None, "serial": self.mgr_serial, "host": host}
        # the generator function's first statement (W.frame) needs to find the
        # manager object, which does not exist until factory() returns; it runs
        # only at __enter__ time, so registering right after creation suffices.
        m = factory(self, host, k, *args)
        m._vs = st
        host.mgrs[k] = m
        self.all_mgrs.append(m)
        return m

    def pre_yield(self, G, is_async):
        """Called in a generator-based manager's generator right before its yield."""
        host, k = G.owner
        m = G.gcm_mgr
        host.h_entered(m, is_async, k)
        self.ev("gcm_entered", k)

    def post_yield(self, G):
        host, k = G.owner
        host.h_exiting(G.gcm_mgr)
        if G.pyframe.f_code.co_flags & 0x200:  # async generator
            G.agcm_exiting = True
            self.agcm_exiting += 1
        self.ev("gcm_exiting", k)

    def gcm_end(self, G):
        host, k = G.owner
        host.h_exited(G.gcm_mgr)
        G.done = True
        if getattr(G, "agcm_exiting", False):
            G.agcm_exiting = False
            self.agcm_exiting -= 1
        self.ev("gcm_end", k)

    # -- exit stack population (generated code calls these wrappers so the
    #    world has its own registration log) --
    def es_enter_context(self, es, m):
        r = es.enter_context(m)
        es._vs_reg("enter_context", m, False)
        return r

    async def es_enter_async_context(self, es, m):
        r = await es.enter_async_context(m)
        es._vs_reg("enter_async_context", m, True)
        return r

    def es_push(self, es, obj, what):
        # what: 'mgr' | 'fn' | 'method'
        es.push(obj)
        es._vs_reg("push_" + what, obj.__self__ if what == "method" else obj, False, extra=obj)

    def es_push_async_exit(self, es, obj, what):
        es.push_async_exit(obj)
        es._vs_reg("push_async_exit_" + what, obj.__self__ if what == "method" else obj, True, extra=obj)

    def es_callback(self, es, fn, *args, **kw):
        es.callback(fn, *args, **kw)
        es._vs_reg("callback", fn, False)

    def es_push_async_callback(self, es, fn, *args, **kw):
        es.push_async_callback(fn, *args, **kw)
        es._vs_reg("push_async_callback", fn, True)

    def es(self, F, k, is_async, host=None):
        cls = ShadowAsyncExitStack if is_async else ShadowExitStack
        m = cls()
        m._vs_init(self, host if host is not None else F, k)
        (host if host is not None else F).mgrs[k] = m
        self.all_mgrs.append(m)
        return m

    def cmgr(self, F, k, which):
        """A C-implemented manager (no Python-level enter/exit to report from)."""
        m = threading.Lock() if which == 0 else threading.RLock()
        F.mgrs[k] = m
        self.all_mgrs.append(m)
        return m

    def cin(self, F, k):
        F.shadow.append(Entry(F.mgrs[k], False, k))

    def cout(self, F, k):
        e = F.find(F.mgrs[k])
        if e is not None:
            F.shadow.remove(e)

    def val(self, shape):
        return make_value(self, shape)

    def cb(self, es, F, cid, probe=0):
        """A plain callable registered with ExitStack.callback."""
        W = self

        def callback_fn(*args, **kw):
            es.h_started(callback_fn)
            W.ev("callback", cid)
            if probe:
                W.probe(F, cid, "exit")
            return None

        return callback_fn

    def acb(self, es, F, cid, probe=0):
        W = self

        async def async_callback_fn(*args, **kw):
            es.h_started(async_callback_fn)
            W.ev("acallback", cid)
            if probe == 1:
                W.probe(F, cid, "exit")
            elif probe == 2:
                await trap(W, F, cid)
            return None

        return async_callback_fn

    def exitfn(self, es, F, cid, probe=0):
        """A function with the __exit__ signature, for ExitStack.push(function)."""
        W = self

        def exit_fn(et, ev, tb):
            es.h_started(exit_fn)
            W.ev("exitfn", cid)
            if probe:
                W.probe(F, cid, "exit")
            return False

        return exit_fn

    def aexitfn(self, es, F, cid, probe=0):
        W = self

        async def aexit_fn(et, ev, tb):
            es.h_started(aexit_fn)
            W.ev("aexitfn", cid)
            if probe == 1:
                W.probe(F, cid, "exit")
            elif probe == 2:
                await trap(W, F, cid)
            return False

        return aexit_fn


def make_value(W, shape):
    # shapes of the value returned by __enter__, to fit the `as` target
    if shape == 0:
        return W.v()
    if shape == 1:
        return (W.v(), W.v())
    if shape == 2:
        return [W.v()]
    if shape == 3:
        return (W.v(), W.v(), W.v(), W.v())
    if shape == 4:
        return (W.v(), (W.v(), W.v()))
    return W.v()


class _Base(object):
    is_async = False

    def __eq__(self, other):
        if getattr(self.W, "eq_mode", False):
            return type(other) is type(self)
        return self is other

    def __ne__(self, other):
        return not self.__eq__(other)

    def __hash__(self):
        if getattr(self.W, "eq_mode", False):
            return 7
        return object.__hash__(self)

    def __bool__(self):
        return not getattr(self.W, "falsy_mode", False)

    def __init__(self, W, F, k, enter_script, exit_script, swallow, shape):
        self.W = W
        self.F = F  # frame record whose code contains the construction site
        self.host = F  # who the lifecycle is reported to (F, or an exit stack)
        self.k = k
        self.enter_script = enter_script
        self.exit_script = exit_script
        self.swallow = swallow
        self.shape = shape

    def __repr__(self):
        return "<%s F%d.%d>" % (type(self).__name__, self.F.id, self.k)

    def _run_sync_script(self, script, where):
        for act in script:
            if act[0] == "probe":
                self.W.probe(self.F, act[1], where)
            elif act[0] == "raise":
                self.W.ctx.fault(where + "_raises")
                raise EXC[act[1]]("from %s of %r" % (where, self))
            elif act[0] == "call":
                helper(self.W, self.F, act[1], where, act[2])

    async def _run_async_script(self, script, where):
        for act in script:
            if act[0] == "probe":
                self.W.probe(self.F, act[1], where)
            elif act[0] == "trap":
                self.W.ctx.stat("trap_in_" + where)
                await trap(self.W, self.F, act[1])
            elif act[0] == "raise":
                self.W.ctx.fault(where + "_raises")
                raise EXC[act[1]]("from %s of %r" % (where, self))
            elif act[0] == "call":
                helper(self.W, self.F, act[1], where, act[2])


def helper(W, F, pid, where, depth):
    """Plain callee(s) several calls below the manager method / body."""
    if depth <= 0:
        W.probe(F, pid, where)
    else:
        helper(W, F, pid, where, depth - 1)


class SyncM(_Base):
    def __enter__(self):
        W, H = self.W, self.host
        W.ev("enter", self.k)
        H.h_entering(self)
        try:
            self._run_sync_script(self.enter_script, "enter")
            v = make_value(W, self.shape)
        except BaseException:
            H.h_enter_failed(self)
            raise
        H.h_entered(self, False, self.k)
        return v

    def __exit__(self, et, ev, tb):
        W, H = self.W, self.host
        H.h_exiting(self)
        W.ev("exit", self.k, et.__name__ if et is not None else None)
        if et is not None:
            W.ctx.fault("exception_path_exit")
        try:
            self._run_sync_script(self.exit_script, "exit")
            if self.swallow and et is not None:
                W.ctx.fault("exit_swallows")
            return bool(self.swallow)
        finally:
            H.h_exited(self)

    def exit_ish(self, et, ev, tb):
        """A bound method with the __exit__ signature but another name (ExitStack.push(method))."""
        self.host.h_exiting(self)
        self.W.ev("exit_ish", self.k)
        return False


class SyncMInherited(SyncM):
    """Methods inherited from a base class."""


class AsyncM(_Base):
    is_async = True

    async def __aenter__(self):
        W, H = self.W, self.host
        W.ev("aenter", self.k)
        H.h_entering(self)
        try:
            await self._run_async_script(self.enter_script, "enter")
            v = make_value(W, self.shape)
        except BaseException:
            H.h_enter_failed(self)
            raise
        H.h_entered(self, True, self.k)
        return v

    async def __aexit__(self, et, ev, tb):
        W, H = self.W, self.host
        H.h_exiting(self)
        W.ev("aexit", self.k, et.__name__ if et is not None else None)
        if et is not None:
            W.ctx.fault("exception_path_exit")
        try:
            await self._run_async_script(self.exit_script, "exit")
            if self.swallow and et is not None:
                W.ctx.fault("exit_swallows")
            return bool(self.swallow)
        finally:
            H.h_exited(self)

    async def aexit_ish(self, et, ev, tb):
        self.host.h_exiting(self)
        self.W.ev("aexit_ish", self.k)
        return False


class AsyncMInherited(AsyncM):
    pass


class BothM(SyncM, AsyncM):
    """Usable in `with` and in `async with`."""


class _ESMixin(object):
    def _vs_init(self, W, F, k):
        self._vW = W
        self._vF = F
        self._vk = k
        self._vchildren = []  # registration log: dicts

        self.mgrs = {}

    def _vs_reg(self, method, obj, is_async, extra=None):
        rec = {"method": method, "obj": obj, "is_async": is_async, "started": False, "extra": extra}
        self._vchildren.append(rec)
        return rec

    def _vs_find(self, obj):
        for r in reversed(self._vchildren):
            if r["obj"] is obj and not r["started"]:
                return r
        return None

    def vs_expected_children(self):
        return [r for r in self._vchildren if not r["started"]]

    # host protocol for children
    def h_entering(self, m):
        pass

    def h_enter_failed(self, m):
        pass

    def h_entered(self, m, is_async, k):
        pass

    def h_exiting(self, m):
        r = self._vs_find(m)
        if r is not None:
            r["started"] = True

    def h_exited(self, m):
        pass

    def h_started(self, fn):
        r = self._vs_find(fn)
        if r is not None:
            r["started"] = True


class ShadowExitStack(_ESMixin, contextlib.ExitStack):
    def __enter__(self):
        r = super(ShadowExitStack, self).__enter__()
        self._vW.ev("es_enter", self._vk)
        self._vF.h_entered(self, False, self._vk)
        return r

    def __exit__(self, *exc):
        F = self._vF
        F.h_exiting(self)
        self._vW.ev("es_exit", self._vk)
        try:
            return super(ShadowExitStack, self).__exit__(*exc)
        finally:
            F.h_exited(self)


class ShadowAsyncExitStack(_ESMixin, contextlib.AsyncExitStack):
    async def __aenter__(self):
        r = await super(ShadowAsyncExitStack, self).__aenter__()
        self._vW.ev("aes_enter", self._vk)
        self._vF.h_entered(self, True, self._vk)
        return r

    async def __aexit__(self, *exc):
        F = self._vF
        F.h_exiting(self)
        self._vW.ev("aes_exit", self._vk)
        try:
            return await super(ShadowAsyncExitStack, self).__aexit__(*exc)
        finally:
            F.h_exited(self)


class ShadowAGCM(contextlib._AsyncGeneratorContextManager):
    """@asynccontextmanager manager with a backstop for the shadow: when the
    coroutine awaiting __aexit__ is close()d, CPython closes the asend/anext
    awaitable without resuming the generator, so __aexit__ ends (raising
    GeneratorExit) while the generator's own finally has not run."""

    async def __aexit__(self, typ, value, tb):
        try:
            return await super(ShadowAGCM, self).__aexit__(typ, value, tb)
        finally:
            st = getattr(self, "_vs", None)
            if st is not None and st.get("host") is not None:
                st["host"].h_exited(self)


def acm(func):
    import functools

    @functools.wraps(func)
    def helper(*args, **kwds):
        return ShadowAGCM(func, args, kwds)

    return helper


def _unbound_exit_manager(base, name):
    """Factory: every instance gets a class of its own whose exit method is a staticmethod
    (closing over the instance), so the special-method lookup of `with` yields an unbound
    function.  Which object the manager is cannot be told from the frame then."""

    def make(W, F, k, enter_script, exit_script, swallow, shape):
        cls = type(base.__name__ + "UnboundExit", (base,), {"unbound_exit": True})
        m = cls(W, F, k, enter_script, exit_script, swallow, shape)
        if name == "__exit__":
            cls.__exit__ = staticmethod(lambda *exc: base.__exit__(m, *exc))
        else:

            async def _aexit(*exc):
                return await base.__aexit__(m, *exc)

            cls.__aexit__ = staticmethod(_aexit)
        return m

    return make


class _CallableExit(object):
    """An object that plays the part of __exit__ without being a function: no __name__,
    no __get__ (contextlib binds it to the manager itself with types.MethodType)."""

    def __init__(self, mgr, base):
        self.mgr = mgr
        self.base = base

    def __call__(self, *args):
        if args and args[0] is self.mgr:
            args = args[1:]
        return self.base.__exit__(self.mgr, *args)


def _nameless_exit_manager(W, F, k, enter_script, exit_script, swallow, shape):
    cls = type("SyncMNamelessExit", (SyncM,), {"nameless_exit": True})
    m = cls(W, F, k, enter_script, exit_script, swallow, shape)
    cls.__exit__ = _CallableExit(m, SyncM)
    return m


MGR_KINDS = {
    "NS": _nameless_exit_manager,
    "US": _unbound_exit_manager(SyncM, "__exit__"),
    "UA": _unbound_exit_manager(AsyncM, "__aexit__"),
    "S": SyncM,
    "SI": SyncMInherited,
    "A": AsyncM,
    "AI": AsyncMInherited,
    "B": BothM,
}

"""One simulated run of the program world with a chosen set of observers."""
from ..kernel import Violation
from . import driver, observe


def run_program(ctx, checks, force=None, root_kind=None, suspend=True, probe=True, battery_cls=None):
    b = driver.build(ctx, force, root_kind)
    W = b.W
    bat = (battery_cls or observe.Battery)(ctx, checks, W)
    pending = []

    def probe_hook(W_, F, pid, where):
        if pending:
            return
        try:
            bat.on_probe(W_, F, pid, where)
        except Violation as v:
            # never let the violation travel through generated code (it may be
            # caught there); stop observing and report after the run
            pending.append(v)
            W_.abort = True

    def suspend_hook(W_, root, kind):
        if pending:
            return
        bat.on_suspend(W_, root, kind)

    W.abort = False
    if probe:
        W.probe_hook = probe_hook
    drv = driver.Driver(b, ctx, on_suspend=suspend_hook if suspend else None)
    try:
        drv.run()
    except Violation:
        raise
    if pending:
        raise pending[0]
    ctx.sample = {"program": b.prog.text, "schedule": drv.schedule, "observations": bat.nobs}
    return b, drv, bat

"""Program generator of the program world: tape -> Python source text + static info.

Every production's alternative 0 is the simplest, so tape shrinking shrinks
programs.  The generated module defines functions f0..fn (f0 is the root) and
generator-based-manager functions m<n>; every one takes W (the World).
"""
import sys

PY = sys.version_info[:2]

ALL_FEATURES = [
    "try", "loop", "if", "match", "leave", "probe", "call", "multiitem", "layouts", "targets",
    "scripts", "gcm", "es", "passive", "swallow", "raise", "prebound", "asyncmgr", "syncmgr", "sentinel", "bloat",
]

TARGETS_SUPPORTED = [
    # (text, shape of the value __enter__ must return)
    ("x{n}", 0),
    ("W.ns.a", 0),
    ("W.ns.b.c", 0),
    ("W.d[0]", 0),
    ("W.d['k']", 0),
    ("W.d[W.i0]", 0),
    ("W.lst[W.i0]", 0),
    ("W.get(1)[0]", 0),
    ("W.get(W.i0)[1]", 0),
    ("W.get2(W.i0, 1)[0]", 0),
    ("W.ns.b.get3(0, W.i0, W.key)[1]", 0),
    ("W.get2(W.key, W.i0)[W.i0]", 0),
    ("(x{n}, y{n})", 1),
    ("[x{n}]", 2),
    ("(x{n}, *y{n}, z{n})", 3),
    ("(x{n}, y{n}, *z{n})", 3),
    ("(*x{n}, y{n}, z{n})", 3),
    ("(x{n}, *y{n})", 1),
    ("(x{n}, (y{n}, *z{n}))", 4),
    ("(x{n}, (y{n}, z{n}))", 4),
    ("(W.ns.a, W.d[1])", 1),
    ("cx{n}", 0),  # closure (cell) variable
]
TARGETS_UNSUPPORTED = [
    ("W.d[(tmp{n} := 0)]", 0),
    ("W.d[W.i0 + 1]", 0),
    ("W.get(i=1)[0]", 0),
    ("W.d[-1]", 0),
]


class Cfg(object):
    def __init__(self, tape, **force):
        # swarm: each run first draws which features are enabled at all
        self.on = {}
        for f in ALL_FEATURES:
            self.on[f] = tape.choose(4) != 1  # value 0 -> enabled (shrinks keep features; harmless)
        # many constants / long jumps (EXTENDED_ARG on LOAD_CONST None and on jumps): rarer, and off when shrunk
        self.on["bloat"] = tape.choose(5) == 4
        self.no_handlers = False
        # swarm knob: in half of the runs every manager's exit (and in a quarter also its
        # enter) contains an observation point, so that every way of leaving a block is seen
        self.always_exit_obs = tape.choose(2) == 1
        self.always_enter_obs = tape.choose(4) == 1
        self.max_funcs = 1 + tape.choose(4)
        self.max_depth = 2 + tape.choose(3)
        # recursion: a function may call itself (bounded by W.rbudget), so that several
        # frames - and several generator-likes - share one code object
        self.on["recurse"] = tape.choose(3) == 2
        # all managers of one class compare (and hash) equal, like dataclass managers with equal
        # fields: what stackscope reports must go by identity
        self.on["eqmgr"] = tape.choose(4) == 3
        # all shadow managers are falsy (like a manager that is also an empty container)
        self.on["falsymgr"] = tape.choose(4) == 3
        for k, v in force.items():
            if k in self.on:
                self.on[k] = v
            else:
                setattr(self, k, v)


class Func(object):
    def __init__(self, name, kind):
        self.name = name
        self.kind = kind  # coro | gen | agen | sync | gbcoro | gcm | agcm
        self.next_k = 0
        self.nvar = 0
        self.cells = []
        self.lines = []
        self.calls = []


class Program(object):
    def __init__(self):
        self.text = ""
        self.funcs = []  # Func, in definition order
        self.items = {}  # (fname, k) -> dict(line, target, supported, is_async, kind, prebound)
        self.points = {}  # id -> dict(kind, fname, enclosing ks)
        self.root = None


class Gen(object):
    def __init__(self, tape, cfg):
        self.t = tape
        self.cfg = cfg
        self.prog = Program()
        self.next_id = 0
        self.nfuncs = 0
        self.ngcm = 0
        self.kinds = []
        self.out = []  # final lines
        self.pending = []  # function bodies to emit (list of (Func, lines))

    # ---- helpers ----
    def nid(self):
        self.next_id += 1
        return self.next_id

    def on(self, f):
        return self.cfg.on.get(f, True)

    # ---- top level ----
    def generate(self, root_kind=None):
        t = self.t
        n = self.cfg.max_funcs
        kinds = []
        rk = root_kind if root_kind is not None else ("coro", "gen", "agen")[t.weighted([5, 2, 2])]
        kinds.append(rk)
        for i in range(1, n):
            if self.cfg.__dict__.get("only_sync"):
                if self.cfg.__dict__.get("drive"):
                    # thread worlds: coroutines / generators driven to completion by a plain loop in
                    # their (synchronous) caller, so their frames run on the thread's stack
                    kinds.append(("sync", "coro", "gen")[t.weighted([4, 2, 1])])
                else:
                    kinds.append("sync")
            else:
                kinds.append(("coro", "sync", "gen", "agen", "gbcoro")[t.weighted([4, 3, 2, 2, 1])])
        self.kinds = kinds
        funcs = []
        for i, kind in enumerate(kinds):
            fn = Func("f%d" % i, kind)
            fn.index = i
            funcs.append(fn)
        self.funcs = funcs
        bodies = []
        for fn in funcs:
            self.cur = fn
            lines = self.gen_function(fn)
            bodies.append((fn, lines))
        # emit: gcm functions were appended to self.pending while generating
        for fn, lines in self.pending + bodies:
            start = len(self.out)
            self.out.extend(lines)
            fn.first_line = start + 1
            # fix up recorded relative line numbers
            for key, info in self.prog.items.items():
                if key[0] == fn.name and "rel_line" in info:
                    info["line"] = start + info.pop("rel_line")
            self.out.append("")
            self.prog.funcs.append(fn)
        self.prog.text = "\n".join(self.out) + "\n"
        self.prog.root = funcs[0]
        return self.prog

    def header(self, fn):
        if fn.kind in ("coro", "agen"):
            return ["async def %s(W):" % fn.name]
        if fn.kind == "gbcoro":
            return ["@types.coroutine", "def %s(W):" % fn.name]
        return ["def %s(W):" % fn.name]

    def gen_function(self, fn):
        lines = self.header(fn)
        fn.lines = lines
        if self.on("bloat") and self.t.choose(2):
            # a docstring makes None a late constant: LOAD_CONST None then needs EXTENDED_ARG
            lines.append("    \'\'\'docstring\'\'\'")
            lines.append("    W.keep([%s])" % ", ".join(str(5000 + fn.index * 400 + i) for i in range(300)))
        lines.append("    F = W.frame(%r)" % fn.name)
        n0 = len(lines)
        self.block(fn, 1, depth=0, inloop=False, nstmts=1 + self.t.choose(4 if fn.index == 0 else 3), top=True)
        if fn.kind in ("gen", "gbcoro", "agen") and not any("yield" in l for l in lines[n0:]):
            # make sure it is a generator function of the intended kind
            if fn.kind == "agen":
                lines.append("    if W.never: yield 0")
            else:
                lines.append("    if W.never: yield 0")
        for c in fn.cells:
            lines.append("    W.keep(lambda: %s)" % c)
        return lines

    # ---- blocks and statements ----
    def emit(self, fn, ind, text):
        fn.lines.append("    " * ind + text)
        return len(fn.lines)  # 1-based relative line of what was just emitted

    def block(self, fn, ind, depth, inloop, nstmts=None, top=False, infinally=False):
        if nstmts is None:
            nstmts = 1 + self.t.weighted([3, 2, 1])
        for _ in range(nstmts):
            self.stmt(fn, ind, depth, inloop, infinally)

    def stmt(self, fn, ind, depth, inloop, infinally=False):
        t = self.t
        deep = depth >= self.cfg.max_depth
        noleave = getattr(self, "noleave", 0) > 0
        # 0 trap/probe (simple), 1 with, 2 try, 3 if, 4 loop, 5 leave, 6 call, 7 assign/pass, 8 match
        w = [5, 6 if not deep else 0, 2 if not deep else 0, 2 if not deep else 0, 2 if not deep else 0, 1 if depth > 0 else 0, 2, 1, 1 if not deep else 0]
        if not self.on("try"):
            w[2] = 0
        if not self.on("if"):
            w[3] = 0
        if not self.on("loop"):
            w[4] = 0
        if not self.on("leave") or noleave:
            w[5] = 0
        if not self.on("call"):
            w[6] = 0
        if not self.on("match") or PY < (3, 10):
            w[8] = 0
        c = t.weighted(w)
        if c == 0:
            self.simple(fn, ind)
        elif c == 1:
            if (self.on("raise") and self.on("leave") and self.on("try") and not self.cfg.no_handlers and not infinally
                    and not noleave and fn.kind not in ("gcm", "agcm") and t.choose(12) == 11):
                # try: with ...: <body>; if c: return   finally: raise
                # (the tail of the finally clause, inlined after the return's copy of the exit
                # sequence, is a raise laid out just before the normal exit sequence)
                self.emit(fn, ind, "try:")
                self.force_tail = "return" if fn.kind == "agen" else "return 5"
                self.with_stmt(fn, ind + 1, depth + 1, inloop)
                self.force_tail = None
                self.emit(fn, ind, "finally:")
                self.emit(fn, ind + 1, "raise W.E%d()" % (1 + t.choose(2)))
            else:
                self.with_stmt(fn, ind, depth, inloop)
        elif c == 2:
            self.try_stmt(fn, ind, depth, inloop)
        elif c == 3:
            self.emit(fn, ind, "if W.C():")
            self.block(fn, ind + 1, depth + 1, inloop)
            if t.choose(3) == 1:
                self.emit(fn, ind, "else:")
                self.block(fn, ind + 1, depth + 1, inloop)
        elif c == 4:
            if t.choose(3) != 2:
                self.emit(fn, ind, "for i%d in range(W.R()):" % depth)
            else:
                self.emit(fn, ind, "while W.C():")
            self.block(fn, ind + 1, depth + 1, True)
            if t.choose(4) == 1:
                self.emit(fn, ind, "else:")
                self.block(fn, ind + 1, depth + 1, inloop)
        elif c == 5:
            self.leave(fn, ind, inloop)
        elif c == 6:
            self.call(fn, ind, depth)
        elif c == 7:
            if self.on("bloat") and t.choose(2):
                # a long straight-line statement: jumps across it need EXTENDED_ARG
                self.emit(fn, ind, "W.keep([%s])" % ", ".join("W.i0" for _ in range(140)))
            elif t.choose(2):
                self.emit(fn, ind, "v%d = W.v()" % depth)
            else:
                self.emit(fn, ind, "pass")
        else:
            self.emit(fn, ind, "match W.R():")
            ncase = 1 + t.choose(2)
            for i in range(ncase):
                self.emit(fn, ind + 1, "case %d:" % i)
                self.block(fn, ind + 2, depth + 1, inloop)
            self.emit(fn, ind + 1, "case _:")
            self.block(fn, ind + 2, depth + 1, inloop)

    def simple(self, fn, ind):
        """A suspension point (trap) or a running-frame observation point (probe)."""
        t = self.t
        pid = self.nid()
        want_probe = self.on("probe") and (fn.kind == "sync" or t.choose(3) == 1)
        if fn.kind == "sync" and not self.on("probe"):
            self.emit(fn, ind, "pass")
            return
        if want_probe:
            d = t.weighted([3, 1, 1])
            if self.cfg.__dict__.get("park") and t.choose(2) == 0:
                # thread worlds: park in a C call made directly from this frame
                if self.on("raise") and not self.cfg.no_handlers and t.choose(5) == 4:
                    # ... or in a helper that raises once it is released: the calling frame then
                    # handles the exception, or finishes, without its f_lasti having moved
                    self.emit(fn, ind, "W.park_raise(F, %d)" % pid)
                    self.prog.points[pid] = {"kind": "park", "fname": fn.name}
                    return
                self.emit(fn, ind, "W.rel(); W.acq()")
                self.prog.points[pid] = {"kind": "park", "fname": fn.name}
                return
            if d == 0:
                self.emit(fn, ind, "W.probe(F, %d)" % pid)
            else:
                self.emit(fn, ind, "W.helper(F, %d, %d)" % (pid, d))
            self.prog.points[pid] = {"kind": "probe", "fname": fn.name}
            return
        self.prog.points[pid] = {"kind": "trap", "fname": fn.name}
        if self.cfg.on.get("sentinel") and self.cfg.__dict__.get("use_sentinels") and t.choose(3) == 1:
            # an object that lives only on the value stack while suspended (C06)
            if fn.kind in ("coro", "agen"):
                self.emit(fn, ind, "W.use(W.sent(%d), await trap(W, F, %d))" % (pid, pid))
            else:
                self.emit(fn, ind, "W.use(W.sent(%d), (yield W.y(F, %d)))" % (pid, pid))
            return
        if fn.kind == "coro":
            self.emit(fn, ind, "await trap(W, F, %d)" % pid)
        elif fn.kind == "agen":
            c = t.weighted([3, 2, 2] if fn.index == 0 else [3, 1, 1])
            if c == 0:
                self.emit(fn, ind, "await trap(W, F, %d)" % pid)
            elif c == 1:
                self.emit(fn, ind, "yield W.y(F, %d)" % pid)
            else:
                self.emit(fn, ind, "r%d = yield W.y(F, %d)" % (ind, pid))
        else:  # gen, gbcoro
            if t.choose(2) == 0:
                self.emit(fn, ind, "yield W.y(F, %d)" % pid)
            else:
                self.emit(fn, ind, "r%d = yield W.y(F, %d)" % (ind, pid))

    def leave(self, fn, ind, inloop):
        t = self.t
        opts = ["return_k", "return_v", "raise"]
        if inloop:
            opts += ["break", "continue"]
        c = t.pick(opts)
        if c == "raise" and (not self.on("raise") or self.cfg.no_handlers):
            c = "return_k"
        if c == "return_k":
            if fn.kind == "agen":
                self.emit(fn, ind, "return")
            else:
                self.emit(fn, ind, "return 5")
        elif c == "return_v":
            if fn.kind == "agen":
                self.emit(fn, ind, "return")
            else:
                self.emit(fn, ind, "return W.v()")
        elif c == "raise":
            self.emit(fn, ind, "raise W.E%d()" % (1 + t.choose(2)))
        else:
            self.emit(fn, ind, c)

    def try_stmt(self, fn, ind, depth, inloop):
        t = self.t
        self.emit(fn, ind, "try:")
        self.block(fn, ind + 1, depth + 1, inloop)
        nh = t.weighted([2, 3, 1])  # 0 handlers => finally mandatory
        if self.cfg.no_handlers:
            nh = 0
        if nh and PY >= (3, 11) and self.on("try") and t.choose(6) == 1:
            # except*: its body may not contain break / continue / return
            self.emit(fn, ind, "except* W.E%d:" % (1 + t.choose(2)))
            self.noleave = getattr(self, "noleave", 0) + 1
            try:
                self.block(fn, ind + 1, depth + 1, inloop)
            finally:
                self.noleave -= 1
            nh = 0
            if t.choose(3) == 1:
                self.emit(fn, ind, "finally:")
                self.block(fn, ind + 1, depth + 1, inloop, infinally=True)
            return
        for h in range(nh):
            form = t.weighted([3, 2, 1, 1])
            if form == 0:
                self.emit(fn, ind, "except W.E%d:" % (1 + (h % 2)))
            elif form == 1:
                self.emit(fn, ind, "except (W.E1, W.E2) as e%d:" % depth)
            elif form == 2:
                self.emit(fn, ind, "except Exception:")
            else:
                self.emit(fn, ind, "except W.Cancel:")
            self.block(fn, ind + 1, depth + 1, inloop)
            if form >= 1:
                break
        if nh and t.choose(4) == 1:
            self.emit(fn, ind, "else:")
            self.block(fn, ind + 1, depth + 1, inloop)
        if nh == 0 or t.choose(3) == 1:
            self.emit(fn, ind, "finally:")
            self.block(fn, ind + 1, depth + 1, inloop, infinally=True)

    def call(self, fn, ind, depth):
        t = self.t
        later = [g for g in self.funcs if g.index > fn.index] if fn.kind not in ("gcm", "agcm") else []
        compat = []
        for g in later:
            if fn.kind in ("coro", "agen") and g.kind in ("coro", "gbcoro", "agen", "sync"):
                compat.append(g)
            elif fn.kind in ("gen",) and g.kind in ("gen", "sync"):
                compat.append(g)
            elif fn.kind in ("gbcoro",) and g.kind in ("gen", "gbcoro", "coro", "sync"):
                compat.append(g)
            elif fn.kind == "sync" and g.kind == "sync":
                compat.append(g)
            elif fn.kind == "sync" and g.kind in ("coro", "gen") and self.cfg.__dict__.get("drive"):
                compat.append(g)
        if self.on("recurse") and fn.kind in ("coro", "agen", "gen", "gbcoro", "sync") and t.choose(3) == 0:
            self.emit(fn, ind, "if W.rbudget(%d):" % (1 + t.choose(3)))
            ind += 1
            compat = [fn]
        if not compat:
            self.emit(fn, ind, "pass")
            return
        g = t.pick(compat)
        sid = self.nid()
        self.prog.points[sid] = {"kind": "call", "fname": fn.name, "callee": g.name}
        fn.calls.append(g.name)
        if g.kind == "sync":
            self.emit(fn, ind, "W.at(F, %d); %s(W)" % (sid, g.name))
        elif fn.kind == "sync":
            self.emit(fn, ind, "W.at(F, %d); W.drive(F, %d, %s(W))" % (sid, sid, g.name))
        elif fn.kind in ("coro", "agen"):
            if g.kind == "agen":
                self.emit(fn, ind, "async for a%d in W.link(F, %d, %s(W)):" % (depth, sid, g.name))
                self.block(fn, ind + 1, depth + 1, True, nstmts=1)
            else:
                self.emit(fn, ind, "c%d = await W.link(F, %d, %s(W))" % (depth, sid, g.name))
        else:
            self.emit(fn, ind, "c%d = yield from W.link(F, %d, %s(W))" % (depth, sid, g.name))

    # ---- with statements ----
    def script(self, is_async, where):
        """enter/exit script of a class manager: tuple of actions."""
        t = self.t
        forced = (where == "exit" and self.cfg.always_exit_obs) or (where == "enter" and self.cfg.always_enter_obs)
        if not self.on("scripts") and not forced:
            return ()
        n = t.weighted([5, 3, 1])
        acts = []
        if forced:
            pid = self.nid()
            if is_async and not (self.on("probe") and t.choose(2)):
                acts.append(("trap", pid))
                self.prog.points[pid] = {"kind": "trap", "where": where}
            elif self.on("probe"):
                acts.append(("probe", pid))
                self.prog.points[pid] = {"kind": "probe", "where": where}
        for _ in range(n):
            c = t.weighted([3, (5 if where == "exit" else 3) if is_async else 0, 1 if self.on("raise") and not self.cfg.no_handlers else 0, 1])
            pid = self.nid()
            if c == 0:
                if not self.on("probe"):
                    continue
                acts.append(("probe", pid))
                self.prog.points[pid] = {"kind": "probe", "where": where}
            elif c == 1:
                acts.append(("trap", pid))
                self.prog.points[pid] = {"kind": "trap", "where": where}
            elif c == 2:
                acts.append(("raise", "E%d" % (1 + t.choose(2))))
                break
            else:
                if not self.on("probe"):
                    continue
                acts.append(("call", pid, 1 + t.choose(2)))
                self.prog.points[pid] = {"kind": "probe", "where": where}
        return tuple(acts)

    def target(self, fn):
        """-> (text or None, supported, shape)"""
        t = self.t
        c = t.weighted([3, 3, 4 if self.on("targets") else 0, 1 if self.on("targets") else 0])
        fn.nvar += 1
        n = fn.nvar
        if c == 0:
            return None, True, 0
        if c == 1:
            return "x%d" % n, True, 0
        if c == 2:
            text, shape = t.pick(TARGETS_SUPPORTED)
            text = text.format(n=n)
            if text.startswith("cx"):
                fn.cells.append(text)
            return text, True, shape
        text, shape = t.pick(TARGETS_UNSUPPORTED)
        return text.format(n=n), False, shape

    def item(self, fn, ind, is_async_with, depth, last):
        """Generate one with-item. Returns dict(expr, target, k, ...)."""
        t = self.t
        k = fn.next_k
        fn.next_k += 1
        # kinds: 0 class sync/async, 1 inherited, 2 both, 3 gcm, 4 exit stack, 5 passive
        w = [6, 2, 1,
             3 if self.on("gcm") and depth < self.cfg.max_depth else 0,
             2 if self.on("es") else 0,
             1 if (self.on("passive") and last and not is_async_with) else 0]
        c = t.weighted(w)
        tgt, supported, shape = self.target(fn)
        info = {"k": k, "is_async": is_async_with, "target": tgt, "supported": supported, "prebound": None, "fname": fn.name}
        swallow = 1 if (self.on("swallow") and not self.cfg.no_handlers and t.choose(5) == 1) else 0
        if c in (0, 1, 2):
            kind = {0: "A" if is_async_with else "S", 1: "AI" if is_async_with else "SI", 2: "B"}[c]
            if self.cfg.__dict__.get("unbound_exit") and t.choose(6) == 5:
                # a manager whose class provides __exit__ / __aexit__ as a staticmethod: what the with
                # statement keeps on the value stack is a plain function, not a bound method
                kind = "UA" if is_async_with else "US"
            es = self.script(is_async_with, "enter")
            xs = self.script(is_async_with, "exit")
            info["mkind"] = kind
            info["expr"] = "W.m(F, %d, %r, %r, %r, %d, %d)" % (k, kind, es, xs, swallow, shape)
        elif c == 3:
            g = self.gcm_function(is_async_with, depth)
            info["mkind"] = "gcm"
            info["gcm_fn"] = g.name
            info["expr"] = "W.gcm(F, %d, %s, %d)" % (k, g.name, shape)
        elif c == 4:
            info["mkind"] = "es"
            info["expr"] = "W.es(F, %d, %d)" % (k, 1 if is_async_with else 0)
            info["target"] = "es%d" % k
            info["supported"] = True
            tgt = info["target"]
        else:
            which = t.choose(3)
            info["mkind"] = "passive"
            info["expr"] = "W.cmgr(F, %d, %d)" % (k, which)
            if tgt is not None and shape != 0:
                info["target"] = "x%d" % fn.nvar
        return info

    def with_stmt(self, fn, ind, depth, inloop):
        t = self.t
        can_async = fn.kind in ("coro", "agen", "agcm")
        if can_async and self.on("asyncmgr") and (not self.on("syncmgr") or t.choose(3) != 2):
            is_async = True
        else:
            is_async = False
        nitems = 1 + (t.weighted([5, 2, 1]) if self.on("multiitem") else 0)
        items = []
        for i in range(nitems):
            items.append(self.item(fn, ind, is_async, depth, last=(i == nitems - 1)))
        # prebound form: single class-manager item bound to a local first
        if nitems == 1 and self.on("prebound") and items[0]["mkind"] in ("S", "A", "SI", "AI", "B") and t.choose(6) == 1:
            it = items[0]
            name = "pm%d" % it["k"]
            self.emit(fn, ind, "%s = %s" % (name, it["expr"]))
            it["expr"] = name
            it["prebound"] = name
            if it["target"] is not None and t.choose(2):
                it["target"] = None
        layout = t.weighted([5, 1, 1, 1]) if self.on("layouts") else 0
        if layout == 2 and PY < (3, 9):
            layout = 0
        kw = "async with" if is_async else "with"
        parts = []
        for it in items:
            parts.append(it["expr"] + (" as %s" % it["target"] if it["target"] is not None else ""))
        if layout == 0:
            ln = self.emit(fn, ind, "%s %s:" % (kw, ", ".join(parts)))
        elif layout == 1:
            ln = self.emit(fn, ind, "%s %s%s" % (kw, parts[0], ", \\" if len(parts) > 1 else ":"))
            for j, p in enumerate(parts[1:]):
                self.emit(fn, ind + 2, p + (", \\" if j < len(parts) - 2 else ":"))
        elif layout == 2:
            ln = self.emit(fn, ind, "%s (" % kw)
            for p in parts:
                self.emit(fn, ind + 2, p + ",")
            self.emit(fn, ind, "):")
        else:
            # multi-line call arguments
            ln = None
            for j, it in enumerate(items):
                e = it["expr"]
                if "(" in e:
                    head, rest = e.split("(", 1)
                    first = "%s(" % head
                    pre = (kw + " ") if j == 0 else ""
                    l0 = self.emit(fn, ind if j == 0 else ind + 2, pre + first)
                    if j == 0:
                        ln = l0
                    self.emit(fn, ind + 3, rest[:-1])
                    tail = ")" + (" as %s" % it["target"] if it["target"] is not None else "")
                    tail += ", \\" if j < len(items) - 1 else ":"
                    self.emit(fn, ind + 2, tail)
                else:
                    pre = (kw + " ") if j == 0 else ""
                    tail = ", \\" if j < len(items) - 1 else ":"
                    l0 = self.emit(fn, ind if j == 0 else ind + 2, pre + parts[j] + tail)
                    if j == 0:
                        ln = l0
        for it in items:
            it["rel_line"] = ln
            it["layout"] = layout
            it["nitems"] = nitems
            self.prog.items[(fn.name, it["k"])] = it
        # body
        self.cur_with_is_async = is_async
        passive = [it for it in items if it["mkind"] == "passive"]
        bind = ind + 1
        if passive:
            self.emit(fn, bind, "W.cin(F, %d)" % passive[0]["k"])
            self.emit(fn, bind, "try:")
            bind += 1
        for it in items:
            if it["mkind"] == "es":
                self.es_population(fn, bind, it, depth)
            if it.get("prebound") and t.choose(2) == 1:
                # the local no longer names the manager: varname may not claim it does
                self.emit(fn, bind, "%s = None" % it["prebound"])
        tail = getattr(self, "force_tail", None)
        self.force_tail = None
        self.block(fn, bind, depth + 1, inloop)
        if tail is not None and not passive:
            self.emit(fn, bind, "if W.C():")
            self.emit(fn, bind + 1, tail)
        if self.on("raise") and self.on("swallow") and not self.cfg.no_handlers and not passive and t.choose(6) == 5:
            # the body ends in a statement whose own last instruction is a raise that belongs to an
            # inner block (an inner manager swallows it): the code laid out just before this
            # with statement's exit sequence cannot fall through, yet the exit is reached normally
            self.raise_tail(fn, bind, depth + 1)
        if passive:
            self.emit(fn, bind - 1, "finally:")
            self.emit(fn, bind, "W.cout(F, %d)" % passive[0]["k"])

    def raise_tail(self, fn, ind, depth):
        t = self.t
        k = fn.next_k
        fn.next_k += 1
        guard = ("if W.C():", "while W.C():", None, "try:")[t.weighted([3, 1, 1, 1])]
        if guard is not None:
            self.emit(fn, ind, guard)
            ind += 1
        expr = "W.m(F, %d, 'S', (), (), 1, 0)" % k
        ln = self.emit(fn, ind, "with %s:" % expr)
        self.prog.items[(fn.name, k)] = {
            "k": k, "is_async": False, "target": None, "supported": True, "prebound": None, "fname": fn.name,
            "mkind": "S", "expr": expr, "rel_line": ln, "layout": 0, "nitems": 1,
        }
        self.emit(fn, ind + 1, "raise W.E%d()" % (1 + t.choose(2)))
        if guard == "try:":
            self.emit(fn, ind - 1, "except KeyError:")
            self.emit(fn, ind, "pass")

    def es_population(self, fn, ind, it, depth):
        t = self.t
        es = it["target"]
        is_async = it["is_async"]
        n = t.weighted([1, 3, 3, 2, 1])
        for _ in range(n):
            k = fn.next_k
            fn.next_k += 1
            cid = self.nid()
            probe = 1 if (self.on("probe") and t.choose(3) == 1) else 0
            opts = ["enter_context", "push_mgr", "push_fn", "push_method", "callback"]
            if depth < self.cfg.max_depth:
                opts.append("enter_es")
            if self.on("gcm") and depth < self.cfg.max_depth:
                opts.append("enter_gcm")
            if is_async:
                opts += ["enter_async_context", "push_async_exit_mgr", "push_async_exit_fn", "push_async_callback", "push_async_exit_method"]
                if self.on("gcm") and depth < self.cfg.max_depth:
                    opts.append("enter_async_gcm")
            c = t.pick(opts)
            if probe:
                self.prog.points[cid] = {"kind": "probe", "where": "exit"}
            if c in ("enter_context", "push_mgr"):
                xs = self.script(False, "exit")
                mk = "S"
                if self.cfg.__dict__.get("nameless_exit") and t.choose(5) == 4:
                    # the class's __exit__ is a callable object without a __name__ (a mock, for one)
                    mk = "NS"
                m = "W.m(F, %d, %r, (), %r, 0, 0, host=%s)" % (k, mk, xs, es)
                if c == "enter_context":
                    self.emit(fn, ind, "W.es_enter_context(%s, %s)" % (es, m))
                else:
                    self.emit(fn, ind, "W.es_push(%s, %s, 'mgr')" % (es, m))
            elif c == "enter_es":
                # an exit stack registered on an exit stack (nested tree)
                child = "es%d" % k
                self.emit(fn, ind, "%s = W.es(F, %d, 0, host=%s)" % (child, k, es))
                self.emit(fn, ind, "W.es_enter_context(%s, %s)" % (es, child))
                sub = {"target": child, "is_async": False}
                self.es_population(fn, ind, sub, depth + 1)
            elif c == "push_fn":
                self.emit(fn, ind, "W.es_push(%s, W.exitfn(%s, F, %d, %d), 'fn')" % (es, es, cid, probe))
            elif c == "push_method":
                self.emit(fn, ind, "W.es_push(%s, W.m(F, %d, 'S', (), (), 0, 0, host=%s).exit_ish, 'method')" % (es, k, es))
            elif c == "callback":
                self.emit(fn, ind, "W.es_callback(%s, W.cb(%s, F, %d, %d), 1, key=2)" % (es, es, cid, probe))
            elif c == "enter_gcm":
                g = self.gcm_function(False, depth)
                self.emit(fn, ind, "W.es_enter_context(%s, W.gcm(F, %d, %s, 0, host=%s))" % (es, k, g.name, es))
            elif c == "enter_async_gcm":
                g = self.gcm_function(True, depth)
                self.emit(fn, ind, "await W.es_enter_async_context(%s, W.gcm(F, %d, %s, 0, host=%s))" % (es, k, g.name, es))
            elif c in ("enter_async_context", "push_async_exit_mgr"):
                xs = self.script(True, "exit")
                m = "W.m(F, %d, 'A', (), %r, 0, 0, host=%s)" % (k, xs, es)
                if c == "enter_async_context":
                    self.emit(fn, ind, "await W.es_enter_async_context(%s, %s)" % (es, m))
                else:
                    self.emit(fn, ind, "W.es_push_async_exit(%s, %s, 'mgr')" % (es, m))
            elif c == "push_async_exit_fn":
                p2 = probe if probe else (2 if t.choose(3) == 1 else 0)
                if p2 == 2:
                    self.prog.points[cid] = {"kind": "trap", "where": "exit"}
                self.emit(fn, ind, "W.es_push_async_exit(%s, W.aexitfn(%s, F, %d, %d), 'fn')" % (es, es, cid, p2))
            elif c == "push_async_exit_method":
                self.emit(fn, ind, "W.es_push_async_exit(%s, W.m(F, %d, 'A', (), (), 0, 0, host=%s).aexit_ish, 'method')" % (es, k, es))
            else:
                p2 = probe if probe else (2 if t.choose(3) == 1 else 0)
                if p2 == 2:
                    self.prog.points[cid] = {"kind": "trap", "where": "exit"}
                self.emit(fn, ind, "W.es_push_async_callback(%s, W.acb(%s, F, %d, %d), 1)" % (es, es, cid, p2))

    # ---- generator-based manager functions ----
    def gcm_function(self, is_async, depth):
        t = self.t
        self.ngcm += 1
        g = Func("m%d" % self.ngcm, "agcm" if is_async else "gcm")
        g.index = 10**6
        lines = []
        g.lines = lines
        dec = "@contextlib.asynccontextmanager" if is_async else "@contextlib.contextmanager"
        lines.append(dec)
        lines.append("%sdef %s(W, host, k, shape):" % ("async " if is_async else "", g.name))
        lines.append("    F = W.frame(%r, owner=(host, k))" % g.name)
        lines.append("    try:")
        ind = 2
        # pre statements
        for _ in range(t.weighted([3, 2, 1])):
            self.gcm_simple(g, ind, is_async)
        # nested withs held across the yield
        nw = t.weighted([3, 3, 1])
        saved_depth = depth
        for _ in range(nw):
            k = None
            can_async = is_async
            w_async = can_async and self.on("asyncmgr") and t.choose(2) == 0
            it = self.item(g, ind, w_async, depth + 1, last=True)
            if it["mkind"] == "passive":
                # keep the template simple: passive managers only in general bodies
                it["mkind"] = "S"
                it["expr"] = "W.m(F, %d, 'S', (), (), 0, 0)" % it["k"]
                it["is_async"] = False
                w_async = False
            kw = "async with" if w_async else "with"
            ln = self.emit(g, ind, "%s %s%s:" % (kw, it["expr"], " as %s" % it["target"] if it["target"] is not None else ""))
            it["rel_line"] = ln
            it["layout"] = 0
            it["nitems"] = 1
            it["is_async"] = w_async
            self.prog.items[(g.name, it["k"])] = it
            ind += 1
            if it["mkind"] == "es":
                self.es_population(g, ind, it, depth + 1)
        # the yield, with marks
        variant = t.weighted([4, 2 if not self.cfg.no_handlers and self.on("swallow") else 0, 2 if not is_async else 0])
        self.emit(g, ind, "W.pre_yield(F, %s)" % ("True" if is_async else "False"))
        if variant == 2:
            # the yield is performed by a sub-generator via `yield from`
            sub = Func("%s_sub" % g.name, "gcmsub")
            sub.index = 10**6
            sub.lines = [
                "def %s(W, G, shape):" % sub.name,
                "    F = W.frame(%r)" % sub.name,
                "    try:",
                "        yield W.val(shape)",
                "    finally:",
                "        W.post_yield(G)",
            ]
            self.pending.append((sub, sub.lines))
            g.sub = sub.name
            self.emit(g, ind, "yield from %s(W, F, shape)" % sub.name)
        elif variant == 1:
            self.emit(g, ind, "try:")
            self.emit(g, ind + 1, "yield W.val(shape)")
            self.emit(g, ind, "except W.E1:")
            self.emit(g, ind + 1, "W.post_yield(F)")
            self.emit(g, ind + 1, "W.ctx.fault('exit_swallows')")
            self.emit(g, ind, "except BaseException:")
            self.emit(g, ind + 1, "W.post_yield(F)")
            self.emit(g, ind + 1, "raise")
            self.emit(g, ind, "else:")
            self.emit(g, ind + 1, "W.post_yield(F)")
        else:
            self.emit(g, ind, "try:")
            self.emit(g, ind + 1, "yield W.val(shape)")
            self.emit(g, ind, "finally:")
            self.emit(g, ind + 1, "W.post_yield(F)")
        # post statements
        for _ in range(t.weighted([3, 2, 1])):
            self.gcm_simple(g, ind, is_async, post=True)
        lines.append("    finally:")
        lines.append("        W.gcm_end(F)")
        self.pending.append((g, lines))
        return g

    def gcm_simple(self, g, ind, is_async, post=False):
        t = self.t
        pid = self.nid()
        c = t.weighted([2, 3 if self.on("probe") else 0, 3 if is_async else 0, 1 if (post and self.on("raise") and not self.cfg.no_handlers) else 0])
        if c == 0:
            self.emit(g, ind, "pass")
        elif c == 1:
            self.emit(g, ind, "W.probe(F, %d, %r)" % (pid, "exit" if post else "enter"))
            self.prog.points[pid] = {"kind": "probe", "fname": g.name}
        elif c == 2:
            self.emit(g, ind, "await trap(W, F, %d)" % pid)
            self.prog.points[pid] = {"kind": "trap", "fname": g.name}
        else:
            self.emit(g, ind, "raise W.E2()")


def generate(tape, cfg, root_kind=None):
    return Gen(tape, cfg).generate(root_kind)

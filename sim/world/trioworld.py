"""Trio world (C14) and greenback bridges (C15): generated task trees run under
a real `trio.run` whose scheduling order is seeded from the tape; worker threads
of to_thread.run_sync park on locks; a controller task takes the snapshot when
everything is blocked.
"""
import linecache
import sys
import threading
import time
import warnings

from ..kernel import Violation, HarnessError

_counter = [0]


class TW(object):
    """World handle passed to generated task functions."""

    def __init__(self, tape, ctx):
        import trio
        import trio.testing

        self.tape = tape
        self.ctx = ctx
        self.trio = trio
        self.never = trio.Event()
        self.info = {}  # task -> dict(fname, blocks)
        self.parked = 0
        self.expected_parked = 0
        self.thread_locks = []
        self.cond = 0
        self.cancel_scopes = []
        self.hops = {}
        self.hop_frames = {}
        self.hop_abandon = {}
        self.hop_named = {}

    async def block(self, bid):
        # blocking point of a task in a nursery body / at top level
        t = self.trio.lowlevel.current_task()
        self.info.setdefault(t, {})["blocks"] = ("body", bid)
        await self.never.wait()

    def leaving(self, bid):
        t = self.trio.lowlevel.current_task()
        self.info.setdefault(t, {})["blocks"] = ("aexit", bid)

    def starting(self, bid):
        t = self.trio.lowlevel.current_task()
        self.info.setdefault(t, {})["blocks"] = ("start", bid)
        self.ctx.stat("blocked_in_nursery_start")

    def enter(self, fname):
        t = self.trio.lowlevel.current_task()
        self.info.setdefault(t, {})["fname"] = fname

    # --- thread hops ---
    def sync_fn(self, depth, key):
        trio = self.trio
        self.hop_frames.setdefault(key, []).append(sys._getframe(0))
        if depth > 0:
            return trio.from_thread.run(self.async_fn, depth - 1, key)
        lock = threading.Lock()
        lock.acquire()
        self.thread_locks.append(lock)
        self.parked += 1
        lock.acquire()  # parked here until the controller releases it
        return None

    async def async_fn(self, depth, key):
        trio = self.trio
        self.hop_frames.setdefault(key, []).append(sys._getframe(0))
        if depth > 0:
            return await trio.to_thread.run_sync(self.sync_fn, depth - 1, key, abandon_on_cancel=self.next_abandon(key), thread_name=self.thread_name_of(key))
        t = trio.lowlevel.current_task()
        self.info.setdefault(t, {})["blocks"] = ("body", -1)
        self.parked += 1
        await self.never.wait()

    def foreign_fn(self, depth, key, token):
        """Body of a thread that Trio did not start: gets into Trio with an explicit token."""
        self.hop_frames.setdefault(key, []).append(sys._getframe(0))
        try:
            self.trio.from_thread.run(self.async_fn, depth, key, trio_token=token)
        except BaseException:
            pass

    async def hop_builtin(self, key):
        """to_thread.run_sync of a C callable: the worker thread has no Python frame below Trio's own."""
        self.expected_parked += 1
        self.hop_serial = getattr(self, "hop_serial", 0) + 1
        key = (key, self.hop_serial)
        t = self.trio.lowlevel.current_task()
        self.info.setdefault(t, {})["blocks"] = ("hop_builtin", key)
        lock = threading.Lock()
        lock.acquire()
        self.thread_locks.append(lock)
        self.parked += 1  # nothing to wait for: the thread parks in C
        self.ctx.stat("to_thread_builtin_callable")
        await self.trio.to_thread.run_sync(lock.acquire)

    async def hop(self, depth, key, flags=(), named=False):
        """to_thread/from_thread ping-pong of the given alternation depth, ending parked."""
        self.expected_parked += 1
        # the same task function may run in several sibling tasks: one chain per task
        self.hop_serial = getattr(self, "hop_serial", 0) + 1
        key = (key, self.hop_serial)
        self.hops[key] = depth
        t = self.trio.lowlevel.current_task()
        self.info.setdefault(t, {})["blocks"] = ("hop", depth, key)
        # flags: whether each to_thread.run_sync of the chain may abandon its thread on cancellation
        # (a re-entrant from_thread.run is then served by a system task instead of the waiting task)
        self.hop_abandon[key] = list(flags)
        self.hop_named[key] = named
        if named:
            self.ctx.stat("explicit_shared_thread_name")
        if any(self.hop_abandon[key][: (depth + 1) // 2]):
            self.ctx.stat("reentrant_call_served_by_system_task")
        await self.trio.to_thread.run_sync(self.sync_fn, depth, key, abandon_on_cancel=self.next_abandon(key), thread_name=self.thread_name_of(key))

    def thread_name_of(self, key):
        # some chains name their worker threads themselves, all with the same (interned) name
        return "vsim-pool" if self.hop_named.get(key) else None

    def next_abandon(self, key):
        flags = self.hop_abandon.get(key)
        return bool(flags.pop(0)) if flags else False


class TrioGen(object):
    def __init__(self, tape):
        self.t = tape
        self.lines = []
        self.nfun = 0
        self.nid = 0
        self.ntasks = 0

    def id(self):
        self.nid += 1
        return self.nid

    def task_fn(self, depth):
        """Emit one task function; returns its name."""
        t = self.t
        self.nfun += 1
        name = "t%d" % self.nfun
        body = []
        nn = t.weighted([2, 4, 2]) if depth < 3 else 0
        if self.ntasks > 10:
            nn = 0
        ind = 1
        body.append("    W.enter(%r)" % name)
        if nn == 0:
            c = t.weighted([4, 1])
            if c == 0 or depth == 0:
                body.append("    await W.block(%d)" % self.id())
            else:
                if t.choose(6) == 5:
                    body.append("    await W.hop_builtin(%d)" % self.id())
                    self.lines.extend(["async def %s(W):" % name] + body + [""])
                    return name
                hd = t.choose(4)
                # everything random about the chain is decided here, at generation time: while the
                # program runs, worker and foreign threads wake the Trio loop at times of their own,
                # so the order in which tasks would draw from the tape is not reproducible
                flags = tuple(t.choose(3) == 2 for _ in range(hd // 2 + 1))
                body.append("    await W.hop(%d, %d, %r, %r)" % (hd, self.id(), flags, t.choose(3) == 2))
            self.lines.extend(["async def %s(W):" % name] + body + [""])
            return name
        # nested nurseries
        children_of = []
        used_es = False
        for k in range(nn):
            if t.choose(4) == 0:
                self.ncm = getattr(self, "ncm", 0) + 1
                cm = "ncm%d" % self.ncm
                self.lines.extend([
                    "@contextlib.asynccontextmanager",
                    "async def %s(W):" % cm,
                    "    async with trio.open_nursery() as inner:",
                    "        yield inner",
                    "",
                ])
                body.append("    " * ind + "async with %s(W) as n%d:" % (cm, k))
            elif t.choose(5) == 0:
                # the nursery is entered through an exit stack
                used_es = True
                body.append("    " * ind + "async with contextlib.AsyncExitStack() as es%d:" % k)
                ind += 1
                body.append("    " * ind + "n%d = await es%d.enter_async_context(trio.open_nursery())" % (k, k))
                ind -= 1
            else:
                body.append("    " * ind + "async with trio.open_nursery() as n%d:" % k)
            ind += 1
            nchild = t.weighted([1, 3, 2, 1]) if k == nn - 1 or t.choose(2) else 0
            child = None
            for c in range(nchild):
                if self.ntasks > 12:
                    break
                self.ntasks += 1
                if t.choose(5) == 4:
                    # started with nursery.start(): the child reports in, then blocks
                    body.append("    " * ind + "await n%d.start(%s, W)" % (k, self.started_fn(True)))
                    continue
                if child is None or t.choose(3) != 0:
                    child = self.task_fn(depth + 1)
                # (otherwise: the same function again - sibling tasks with equal names)
                body.append("    " * ind + "n%d.start_soon(%s, W)" % (k, child))
        # how the innermost body ends
        end = t.weighted([3, 3, 1, 1, 1, 1, 1])
        if used_es and end not in (0, 6):
            # while an exit stack unwinds, the callback it has popped and is running (here: the
            # nursery's __aexit__) belongs to no with statement and to no stack any more: stackscope
            # has no way to show it (C09 states the same for plain managers).  Stay in the body.
            end = 0
        bid = self.id()
        if end == 6:
            # the child never reports in: this task stays inside Nursery.start(), which keeps the
            # child in a nursery of its own until then
            self.ntasks += 1
            body.append("    " * ind + "W.starting(%d)" % bid)
            body.append("    " * ind + "await n%d.start(%s, W)" % (nn - 1, self.started_fn(False)))
        elif end == 0:
            body.append("    " * ind + "await W.block(%d)" % bid)
        elif end == 1:
            body.append("    " * ind + "W.leaving(%d)" % bid)
        elif end == 2:
            body.append("    " * ind + "try:")
            body.append("    " * (ind + 1) + "W.leaving(%d)" % bid)
            body.append("    " * ind + "except KeyError:")
            body.append("    " * (ind + 1) + "pass")
        elif end == 3:
            body.append("    " * ind + "try:")
            body.append("    " * (ind + 1) + "pass")
            body.append("    " * ind + "finally:")
            body.append("    " * (ind + 1) + "W.leaving(%d)" % bid)
        elif end == 4:
            body.append("    " * ind + "W.leaving(%d)" % bid)
            body.append("    " * ind + "if %s:" % bool(t.choose(2)))
            body.append("    " * (ind + 1) + "return 5")
        else:
            body.append("    " * ind + "W.leaving(%d)" % bid)
            body.append("    " * ind + "with trio.CancelScope() as cs%d:" % bid)
            body.append("    " * (ind + 1) + "cs%d.cancel()" % bid)
            body.append("    " * (ind + 1) + "await trio.sleep(0)")
        self.lines.extend(["async def %s(W):" % name] + body + [""])
        return name

    def started_fn(self, reports_in):
        self.nfun += 1
        name = "s%d" % self.nfun
        body = ["    W.enter(%r)" % name]
        if reports_in:
            body.append("    task_status.started()")
        body.append("    await W.block(%d)" % self.id())
        self.lines.extend(["async def %s(W, task_status=trio.TASK_STATUS_IGNORED):" % name] + body + [""])
        return name

    def generate(self):
        root = self.task_fn(0)
        return "\n".join(self.lines) + "\n", root


def seed_trio(tape):
    import trio
    import trio.testing

    r = trio._core._run
    r._ALLOW_DETERMINISTIC_SCHEDULING = True
    r._r.seed(tape.choose(1 << 16))


def walk_check(ctx, W, task, st, depth=0):
    """Parallel walk of Trio's own tree and the extracted tree."""
    import trio
    import trio.testing
    import stackscope

    if st.root is not task:
        raise Violation("c14_root", "child Stack root is not the task", {})
    if st.error is not None:
        raise Violation("c14_error", "Stack of %r has error %r" % (task.name, st.error), {})
    ctx.stat("tasks_checked")
    found = []

    def scan(stack):
        for f in stack.frames:
            for c in f.contexts:
                if isinstance(c.obj, trio.Nursery):
                    found.append((f, c))
                elif c.inner_stack is not None:
                    # a nursery opened inside an @asynccontextmanager lives in its inner stack
                    scan(c.inner_stack)
                else:
                    # a nursery entered through an exit stack is one of that context's children
                    for ch in c.children:
                        if isinstance(ch, stackscope.Context) and isinstance(ch.obj, trio.Nursery):
                            found.append((f, ch))

    scan(st)
    nurseries = list(task.child_nurseries)
    if len(found) != len(nurseries) or any(c.obj is not n for (f, c), n in zip(found, nurseries)):
        raise Violation(
            "c14_nurseries",
            "task %s: %d nursery contexts reported, Trio has %d open nurseries (order/identity must match)" % (task.name, len(found), len(nurseries)),
            {"task": task.name},
        )
    info = W.info.get(task, {})
    blocks = info.get("blocks")
    for i, ((f, c), n) in enumerate(zip(found, nurseries)):
        kids = list(n.child_tasks)
        stacks = [ch for ch in c.children if isinstance(ch, stackscope.Stack)]
        if len(stacks) != len(c.children):
            raise Violation("c14_child_kind", "nursery children contain non-Stack entries", {})
        if len(stacks) != len(kids):
            raise Violation("c14_children_count", "nursery #%d of %s: %d child stacks, %d child tasks" % (i, task.name, len(stacks), len(kids)), {})
        remaining = list(kids)
        for s in stacks:
            m = [k for k in remaining if k is s.root]
            if not m:
                raise Violation("c14_child_identity", "a child Stack's root is not (or twice) a child task of that nursery", {})
            remaining.remove(m[0])
            walk_check(ctx, W, m[0], s, depth + 1)
        is_last = i == len(nurseries) - 1
        if blocks and blocks[0] == "start" and is_last:
            # the innermost nursery is the one Nursery.start() keeps the child in; the task
            # waits in its __aexit__ until the child reports in
            if not c.is_exiting:
                raise Violation("c14_exiting_flag", "task %s waits in Nursery.start() (the __aexit__ of its internal nursery) but that context is not is_exiting" % task.name, {})
        elif blocks and blocks[0] == "aexit" and is_last:
            ctx.stat("blocked_in_aexit")
            if not c.is_exiting:
                raise Violation("c14_exiting_flag", "task %s waits in its innermost nursery's __aexit__ but the context is not is_exiting" % task.name, {})
        elif blocks and blocks[0] in ("body", "hop", "start", "hop_builtin"):
            if c.is_exiting:
                raise Violation("c14_exiting_flag", "task %s blocks in the nursery body but the context is is_exiting" % task.name, {})
    # down to its blocking point
    vis = [f for f in st.frames if not f.hide]
    gen = [f for f in st.frames if f.filename.startswith("<vtrio")]
    if info.get("fname") and (not gen or gen[0].funcname != info["fname"]):
        raise Violation("c14_task_frame", "task %s: first generated frame is %r, expected %r" % (task.name, gen and gen[0].funcname, info.get("fname")), {})
    if blocks and blocks[0] == "body":
        names = [f.funcname for f in vis]
        if "block" not in names and "async_fn" not in names:
            raise Violation("c14_blocking_point", "task %s blocks in W.block() but visible frames are %r" % (task.name, names), {})
        if vis and vis[-1].funcname in ("wait_task_rescheduled",):
            raise Violation("c14_trap_visible", "trap frame visible at the end of %s" % task.name, {})
    if blocks and blocks[0] == "hop_builtin":
        ctx.stat("thread_hops_checked")
        # the worker thread runs a C callable: it has no frames of its own to show, and
        # Trio's thread plumbing is not "the worker thread's frames"
        bad = [f.funcname for f in vis if f.filename.endswith("_threads.py") and f.funcname in ("worker_fn", "_work", "_handle_job")]
        bad += [f.funcname for f in vis if f.filename.endswith("threading.py")]
        names = [f.funcname for f in vis]
        if bad or "hop_builtin" not in names:
            raise Violation("c14_thread_hops", "task %s waits in to_thread.run_sync(<builtin>): visible frames %r (thread plumbing shown: %r)" % (task.name, names, bad), {})
    if blocks and blocks[0] == "start":
        names = [f.funcname for f in vis]
        if "start" not in names:
            raise Violation("c14_blocking_point", "task %s waits inside Nursery.start() but visible frames are %r" % (task.name, names), {})
        if vis and vis[-1].funcname in ("wait_task_rescheduled",):
            raise Violation("c14_trap_visible", "trap frame visible at the end of %s" % task.name, {})
    if blocks and blocks[0] == "hop":
        ctx.stat("thread_hops_checked")
        d = blocks[1]
        names = [f.funcname for f in vis if f.funcname in ("sync_fn", "async_fn")]
        exp = []
        for k in range(d + 1):
            exp.append("sync_fn" if k % 2 == 0 else "async_fn")
        got_frames = [f.pyframe for f in vis if f.funcname in ("sync_fn", "async_fn")]
        exp_frames = W.hop_frames.get(blocks[2], []) if len(blocks) > 2 else []
        if names == exp and (len(got_frames) != len(exp_frames) or any(a is not b for a, b in zip(got_frames, exp_frames))):
            raise Violation(
                "c14_thread_hops",
                "task %s: alternation of depth %d shows the right function names but not the frames of the threads / task actually serving the chain (a worker thread's frames appear in place of another's)"
                % (task.name, d),
                {"depth": d},
            )
        if names != exp:
            raise Violation(
                "c14_thread_hops",
                "task %s: to_thread/from_thread alternation of depth %d shows world frames %r, expected %r (all visible: %r)"
                % (task.name, d, names, exp, [f.funcname for f in vis]),
                {"depth": d},
            )
    ctx.cover(("c14", depth, len(nurseries), tuple(len(n.child_tasks) for n in nurseries), blocks and blocks[0], blocks and blocks[0] == "hop" and blocks[1]))


def run_tree(ctx):
    import trio
    import trio.testing
    import stackscope

    tape = ctx.tape
    text, rootname = TrioGen(tape).generate()
    _counter[0] += 1
    filename = "<vtrio-%d>" % _counter[0]
    linecache.cache[filename] = (len(text), None, text.splitlines(True), filename)
    ctx.case["program"] = text
    W = TW(tape, ctx)
    import contextlib

    ns = {"trio": trio, "W": W, "contextlib": contextlib, "__name__": "vsim_trio"}
    exec(compile(text, filename, "exec"), ns)
    result = {}

    # a thread that Trio did not start, calling into Trio with a token (alternation depth 0-3 from there)
    foreign = None
    if tape.choose(3) == 2:
        fdepth = tape.choose(4)
        fkey = ("foreign", 0)
        W.hop_abandon[fkey] = [tape.choose(3) == 2 for _ in range(fdepth // 2 + 1)]
        foreign = {"depth": fdepth, "key": fkey}
        W.expected_parked += 1
        ctx.stat("foreign_thread_chains")

    def check_foreign():
        th = foreign["thread"]
        with warnings.catch_warnings(record=True) as wl:
            warnings.simplefilter("always")
            ctx.in_sut(True)
            st = stackscope.extract(th)
            ctx.in_sut(False)
        bad = [w for w in wl if issubclass(w.category, stackscope.InspectionWarning)]
        if bad:
            raise Violation("c14_warning", "InspectionWarning while extracting the foreign thread: %s" % str(bad[0].message)[:200], {})
        if st.error is not None:
            raise Violation("c14_error", "extract(foreign thread).error = %r" % (st.error,), {})
        vis = [f for f in st.frames if not f.hide]
        names = [f.funcname for f in vis if f.funcname in ("foreign_fn", "sync_fn", "async_fn")]
        exp = ["foreign_fn"] + ["async_fn" if k % 2 == 0 else "sync_fn" for k in range(foreign["depth"] + 1)]
        got_frames = [f.pyframe for f in vis if f.funcname in ("foreign_fn", "sync_fn", "async_fn")]
        exp_frames = W.hop_frames.get(foreign["key"], [])
        if names != exp or len(got_frames) != len(exp_frames) or any(a is not b for a, b in zip(got_frames, exp_frames)):
            raise Violation(
                "c14_thread_hops",
                "foreign thread in from_thread.run(trio_token=...), alternation depth %d: world frames %r, expected %r (all visible: %r)"
                % (foreign["depth"], names, exp, [f.funcname for f in vis]),
                {"depth": foreign["depth"], "foreign": True},
            )

    async def controller(main_nursery):
        await trio.testing.wait_all_tasks_blocked()
        # worker threads are real: wait until every hop chain is parked
        for _ in range(20000):
            if W.parked >= W.expected_parked:
                break
            await trio.sleep(0)
            time.sleep(0.0005)
        else:
            result["harness"] = "worker threads did not park"
        await trio.testing.wait_all_tasks_blocked()
        root = trio.lowlevel.current_root_task()
        try:
            with warnings.catch_warnings(record=True) as wl:
                warnings.simplefilter("always")
                ctx.in_sut(True)
                st = stackscope.extract(root, recurse_child_tasks=True)
                st_stub = stackscope.extract(root, recurse_child_tasks=False)
                ctx.in_sut(False)
            result["st"] = st
            result["stub"] = st_stub
            result["warnings"] = [w for w in wl if issubclass(w.category, stackscope.InspectionWarning)]
            result["root"] = root
            try:
                if result["warnings"]:
                    raise Violation("c14_warning", "InspectionWarning: %s" % str(result["warnings"][0].message)[:200], {})
                walk_check(ctx, W, root, st)
                check_stubs(ctx, st_stub)
                if foreign is not None:
                    check_foreign()
            except Violation as v:
                result["violation"] = v
        finally:
            for lock in W.thread_locks:
                try:
                    lock.release()
                except RuntimeError:
                    pass
            main_nursery.cancel_scope.cancel()

    async def main():
        seed_trio(tape)
        if foreign is not None:
            th = threading.Thread(target=W.foreign_fn, args=(foreign["depth"], foreign["key"], trio.lowlevel.current_trio_token()), name="vsim-foreign")
            th.daemon = True
            foreign["thread"] = th
            th.start()
        async with trio.open_nursery() as nursery:
            nursery.start_soon(ns[rootname], W)
            nursery.start_soon(controller, nursery)

    try:
        trio.run(main)
    finally:
        linecache.cache.pop(filename, None)
        if foreign is not None and foreign.get("thread") is not None:
            foreign["thread"].join(20)
    if "harness" in result:
        raise HarnessError(result["harness"])
    if "violation" in result:
        raise result["violation"]
    st = result.get("st")
    ctx.log("trio", len(st.frames) if st is not None else -1, str(st).count("\n") if st is not None else 0)
    ctx.sample = {"program": text}


def check_stubs(ctx, st):
    """recurse_child_tasks=False: child task stacks are stubs with a root and no frames."""
    import stackscope

    for f in st.frames:
        for c in f.contexts:
            for ch in c.children:
                if isinstance(ch, stackscope.Stack):
                    ctx.stat("stubs_checked")
                    if ch.frames or ch.root is None:
                        raise Violation("c14_stub", "child task stack without recursion is not a stub: %r" % (ch,), {})


# ---------------------------------------------------------------------------
# greenback bridges (C15)


def run_greenback(ctx):
    import trio
    import trio.testing
    import greenback
    import stackscope

    tape = ctx.tape
    depth = tape.choose(4)
    inside = tape.choose(2) == 1
    # how the task gets its portal, and through which of greenback's bridges each level goes
    # from synchronous code into a coroutine (all drawn before the Trio run starts)
    portal = ("ensure", "run", "run_sync", "run_tree")[tape.weighted([3, 1, 1, 1])]
    bridges = [("await_", "autoawait", "async_context", "async_iter")[tape.weighted([3, 1, 1, 1])] for _ in range(depth + 1)]
    ctx.case = {"alternation_depth": depth, "from_inside": inside, "portal": portal, "bridges": bridges}
    never = None
    result = {}
    shadow = []
    import contextlib

    @contextlib.asynccontextmanager
    async def via_cm(afn, *args):
        shadow.append(sys._getframe(0))
        try:
            await afn(*args)
            yield 0
        finally:
            shadow.pop()

    async def via_agen(afn, *args):
        shadow.append(sys._getframe(0))
        try:
            await afn(*args)
            yield 0
        finally:
            shadow.pop()

    def bridge(d, afn, *args):
        kind = bridges[d]
        if kind == "await_":
            return greenback.await_(afn(*args))
        if kind == "autoawait":
            return greenback.autoawait(afn)(*args)
        if kind == "async_context":
            with greenback.async_context(via_cm(afn, *args)):
                return None
        for _ in greenback.async_iter(via_agen(afn, *args)):
            pass
        return None

    def sync_level(d):
        shadow.append(sys._getframe(0))
        try:
            if d <= 0:
                if inside:
                    with warnings.catch_warnings():
                        warnings.simplefilter("ignore")
                        ctx.in_sut(True)
                        result["st"] = stackscope.extract(result["task"])
                        ctx.in_sut(False)
                    result["shadow"] = list(shadow) + [sys._getframe(0)][:0]
                    return None
                return bridge(0, bottom)
            return bridge(d, async_level, d - 1)
        finally:
            shadow.pop()

    async def async_level(d):
        shadow.append(sys._getframe(0))
        try:
            return sync_level(d)
        finally:
            shadow.pop()

    async def bottom():
        shadow.append(sys._getframe(0))
        try:
            await never.wait()
        finally:
            shadow.pop()

    async def portal_body():
        shadow.append(sys._getframe(0))
        try:
            if depth == 0 and not inside:
                await never.wait()
            else:
                sync_level(depth)
        finally:
            shadow.pop()

    async def task_fn():
        shadow.append(sys._getframe(0))
        try:
            result["task"] = trio.lowlevel.current_task()
            if portal == "ensure":
                await greenback.ensure_portal()
                if depth == 0 and not inside:
                    await never.wait()
                else:
                    sync_level(depth)
            elif portal == "run":
                await greenback.with_portal_run(portal_body)
            elif portal == "run_tree":
                await greenback.with_portal_run_tree(portal_body)
            else:
                await greenback.with_portal_run_sync(sync_level, depth)
        finally:
            shadow.pop()

    async def controller(nursery):
        await trio.testing.wait_all_tasks_blocked()
        try:
            if not inside:
                with warnings.catch_warnings():
                    warnings.simplefilter("ignore")
                    ctx.in_sut(True)
                    result["st"] = stackscope.extract(result["task"])
                    ctx.in_sut(False)
                result["shadow"] = list(shadow)
        finally:
            nursery.cancel_scope.cancel()

    async def main():
        nonlocal never
        never = trio.Event()
        seed_trio(tape)
        async with trio.open_nursery() as nursery:
            nursery.start_soon(task_fn)
            nursery.start_soon(controller, nursery)

    trio.run(main)
    st = result.get("st")
    if st is None:
        raise HarnessError("greenback scenario produced no extraction")
    ctx.stat("greenback_checked")
    if st.error is not None:
        raise Violation("c15_greenback_error", "extract(task) error %r" % (st.error,), ctx.case)
    sh = result["shadow"]
    world = [f for f in st.frames if any(f.pyframe is s for s in sh)]
    got = [f.pyframe for f in world]
    if len(got) != len(sh) or any(a is not b for a, b in zip(got, sh)):
        raise Violation(
            "c15_greenback_frames",
            "greenback alternation depth %d (%s): extracted world frames %r, shadow %r; all: %r"
            % (depth, "from inside" if inside else "from outside", [f.f_code.co_name for f in got], [f.f_code.co_name for f in sh], [(f.funcname, f.hide) for f in st.frames]),
            ctx.case,
        )
    for f in st.frames:
        mod = f.modname or ""
        # the bridge itself: trampoline / _greenback_shim / await_ (the repository's own
        # test expects greenback_shim and adapt_awaitable to stay visible)
        if mod.startswith("greenback") and f.funcname in ("trampoline", "_greenback_shim", "_greenback_shim_sync", "await_") and not f.hide:
            raise Violation("c15_greenback_internal_visible", "greenback internal frame %s.%s is not hidden" % (mod, f.funcname), ctx.case)
        if any(f.pyframe is s for s in sh) and f.hide:
            raise Violation("c15_greenback_world_hidden", "world frame %s hidden" % f.funcname, ctx.case)
    ctx.cover(("gback", depth, inside, portal, tuple(bridges)))
    ctx.log("gback", depth, inside, portal, tuple(bridges), len(st.frames))
    ctx.sample = ctx.case

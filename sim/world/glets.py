"""Greenlet world (C15, C04): a director drives a tree of greenlets; every
greenlet body is `entry -> level* -> loop`, the loop asks the director (tape)
what to do next: switch to another greenlet, spawn a child, inspect a greenlet,
probe slices of the running stack, or finish.  Each greenlet keeps its own
shadow call log (frames pushed by the world itself).
"""
import sys
import threading

import greenlet

from ..kernel import Violation


class GRec(object):
    def __init__(self, gw, name, parent_rec, depth, gen_levels):
        self.gw = gw
        self.name = name
        self.parent_rec = parent_rec
        self.depth = depth
        self.gen_levels = gen_levels  # set of level numbers implemented as running generators
        self.frames = []
        self.glet = None
        self.started = False
        self.finished = False

    def __repr__(self):
        return "<G %s>" % self.name


class GWorld(object):
    MAX_STEPS = 40

    def __init__(self, tape, ctx, on_inspect, on_slices=None, max_glets=5):
        self.t = tape
        self.ctx = ctx
        self.on_inspect = on_inspect
        self.on_slices = on_slices
        self.recs = []
        self.steps = 0
        self.max_glets = max_glets
        self.main = GRec(self, "main", None, 0, set())
        self.main.glet = greenlet.getcurrent()
        self.main.started = True
        self.recs.append(self.main)
        self.log = []
        self.pending = None
        self.thread_ident = threading.get_ident()

    # ---- greenlet bodies ----
    def entry_for(self, rec):
        gw = self

        def entry():
            rec.frames.append(sys._getframe(0))
            rec.started = True
            try:
                return gw.level(rec, rec.depth)
            finally:
                rec.frames.pop()
                rec.finished = True

        return entry

    def level(self, rec, n):
        rec.frames.append(sys._getframe(0))
        try:
            if n <= 0:
                return self.loop(rec)
            if n in rec.gen_levels:
                g = self.genlevel(rec, n - 1)
                for _ in g:
                    pass
                return None
            return self.level(rec, n - 1)
        finally:
            rec.frames.pop()

    def genlevel(self, rec, n):
        # a running generator in the middle of the stack
        rec.frames.append(sys._getframe(0))
        try:
            self.level(rec, n)
            yield 1
        finally:
            rec.frames.pop()

    def loop(self, rec):
        rec.frames.append(sys._getframe(0))
        try:
            while True:
                if self.pending is not None:
                    return
                act = self.next_action(rec)
                self.log.append((rec.name,) + tuple(str(a) for a in act[:2]))
                if act[0] == "finish":
                    return
                if act[0] == "switch":
                    act[1].glet.switch()
                elif act[0] == "spawn":
                    child = act[1]
                    child.glet = greenlet.greenlet(self.entry_for(child), parent=rec.glet)
                    if act[2]:
                        child.glet.switch()
                elif act[0] == "throw":
                    try:
                        act[1].glet.throw(greenlet.GreenletExit)
                    except greenlet.GreenletExit:
                        pass
                elif act[0] == "inspect":
                    try:
                        self.on_inspect(self, rec, act[1])
                    except Violation as v:
                        self.pending = v
                        return
                elif act[0] == "slices":
                    try:
                        self.on_slices(self, rec)
                    except Violation as v:
                        self.pending = v
                        return
        finally:
            rec.frames.pop()

    # ---- director ----
    def state_of(self, r):
        if r.glet is None:
            return "uncreated"
        if r.glet is greenlet.getcurrent():
            return "current"
        if r.glet.dead:
            return "dead"
        if not r.started:
            return "unstarted"
        return "suspended"

    def next_action(self, rec):
        t = self.t
        self.steps += 1
        if self.steps > self.MAX_STEPS:
            return ("finish",)
        others = [r for r in self.recs if r is not rec and r.glet is not None]
        switchable = [r for r in others if not r.glet.dead]
        opts = ["inspect", "inspect"]
        if self.on_slices is not None:
            opts += ["slices", "slices"]
        if switchable:
            opts += ["switch", "switch"]
        if len(self.recs) < self.max_glets:
            opts += ["spawn", "spawn"]
        if rec is not self.main:
            opts.append("finish")
        sus = [r for r in others if self.state_of(r) == "suspended" and r is not self.main and not self.is_ancestor(r, rec)]
        if sus:
            opts.append("throw")
        c = t.pick(opts)
        if c == "inspect":
            cands = [r for r in self.recs if r.glet is not None]
            return ("inspect", t.pick(cands))
        if c == "slices":
            return ("slices",)
        if c == "switch":
            return ("switch", t.pick(switchable))
        if c == "spawn":
            depth = t.choose(4)
            gens = set()
            if depth >= 2 and t.choose(3) == 1:
                gens.add(1 + t.choose(depth - 1))
            child = GRec(self, "g%d" % len(self.recs), rec, depth, gens)
            self.recs.append(child)
            return ("spawn", child, t.choose(4) != 0)
        if c == "throw":
            return ("throw", t.pick(sus))
        return ("finish",)

    def is_ancestor(self, a, b):
        """Is greenlet a an ancestor (parent chain) of greenlet b?"""
        g = b.glet.parent if b.glet is not None else None
        while g is not None:
            if g is a.glet:
                return True
            g = g.parent
        return False

    def run(self):
        self.main.frames.append(sys._getframe(0))
        try:
            self.loop(self.main)
        finally:
            self.main.frames.pop()
            # kill what is still suspended, innermost first
            for r in reversed(self.recs):
                if r.glet is not None and r is not self.main and not r.glet.dead and r.started:
                    try:
                        r.glet.throw(greenlet.GreenletExit)
                    except BaseException:
                        pass
        if self.pending is not None:
            raise self.pending

"""Formatting oracles (C18, C19): an independent reader of the box-drawing
output, the expected shape of a Stack under given options, a reference
projection to stdlib FrameSummary entries, and tape-drawn perturbations of
real Stacks (hidden flags, dropped metadata, child stacks, leaf, error, source
faults through linecache).
"""
import gc
import linecache
import pickle
import sys
import traceback
import types

from ..kernel import Violation

CONT = ("║ ", "│ ", "├─", "  ")
TOK = {"╠ ": "+ ", "║ ": "| ", "╚ ": "+ ", "├ ": ". ", "│ ": "  ", "├─": "  ", "─ ": ". ", "└ ": "` ", "  ": "  "}
TERMINAL = ("╠ ", "╚ ", "├ ", "─ ", "└ ")


# ---------------------------------------------------------------------------
# reader


class PStack(object):
    def __init__(self):
        self.frames = []
        self.leaf = None
        self.error = []


class PFrame(object):
    def __init__(self, header):
        self.header = header
        self.contexts = []
        self.code = None


class PCtx(object):
    def __init__(self, text):
        self.text = text
        self.inner = None
        self.children = []


def parse_stack_body(lines, where):
    """lines: the lines of a Stack after its header, already stripped of outer prefixes."""
    ps = PStack()
    i = 0
    n = len(lines)
    while i < n:
        line = lines[i]
        if line.startswith("╠ "):
            body = []
            j = i + 1
            while j < n and lines[j].startswith("║ "):
                body.append(lines[j][2:])
                j += 1
            ps.frames.append(parse_frame(line[2:], body, where))
            i = j
        elif line.startswith("╚ "):
            if ps.leaf is not None:
                raise Violation("c18_unreadable", "%s: two leaf lines" % where, {})
            ps.leaf = line[2:]
            i += 1
        elif line.startswith("  ") or not line.strip():
            # error block (free text) runs to the end of this stack's lines
            ps.error = [l for l in lines[i:] if l.strip()]
            if ps.error and not ps.error[0].startswith("  Error while extracting stack:"):
                raise Violation("c18_unreadable", "%s: unexpected text where an error block should start: %r" % (where, ps.error[0]), {})
            break
        else:
            raise Violation("c18_unreadable", "%s: line with no recognisable prefix: %r" % (where, line), {})
    return ps


def parse_frame(header, body, where):
    pf = PFrame(header)
    i = 0
    n = len(body)
    while i < n:
        line = body[i]
        if line.startswith("├ "):
            internal = []
            j = i + 1
            while j < n and (body[j].startswith("│ ") or body[j].startswith("├─")):
                if body[j].startswith("│ ─ "):
                    # a child (context or task) is introduced by the fixed marker "├─" + "─ "
                    raise Violation("c18_child_marker", "%s: child line %r uses the continuation marker instead of the child marker" % (where, body[j]), {})
                internal.append(body[j][2:])
                j += 1
            pf.contexts.append(parse_ctx(line[2:], internal, where))
            i = j
        elif line.startswith("└ "):
            if pf.code is not None or i != n - 1:
                raise Violation("c18_unreadable", "%s: code line not last in frame %r" % (where, header), {})
            pf.code = line[2:]
            i += 1
        else:
            raise Violation("c18_unreadable", "%s: frame %r has an unreadable line %r" % (where, header.strip(), line), {})
    return pf


def parse_ctx(text, internal, where):
    pc = PCtx(text)
    # inner stack part: everything before the first child marker
    k = 0
    while k < len(internal) and not internal[k].startswith("─ "):
        k += 1
    inner_lines = internal[:k]
    # a blank separator ("  \n") may precede the first child task stack
    while inner_lines and not inner_lines[-1].strip():
        inner_lines.pop()
    if inner_lines:
        pc.inner = parse_stack_body(inner_lines, where)
    rest = internal[k:]
    i = 0
    while i < len(rest):
        first = rest[i][2:]
        cont = []
        j = i + 1
        while j < len(rest) and not rest[j].startswith("─ "):
            if not rest[j].startswith("  ") and rest[j].strip():
                raise Violation("c18_unreadable", "%s: child continuation line without its two-column prefix: %r" % (where, rest[j]), {})
            cont.append(rest[j][2:])
            j += 1
        while cont and not cont[-1].strip():
            cont.pop()
        pc.children.append(parse_ctx(first, cont, where))
        i = j
    return pc


# ---------------------------------------------------------------------------
# expected shape from the Stack object


def exp_stack(st, show_contexts, show_hidden):
    frames = []
    for f in st.frames:
        if f.hide and not show_hidden:
            continue
        frames.append(exp_frame(f, show_contexts, show_hidden))
    return {"frames": frames, "leaf": st.leaf is not None, "error": st.error is not None}


def exp_frame(f, show_contexts, show_hidden):
    ctxs = []
    if show_contexts:
        for c in f.contexts:
            if c.hide and not show_hidden:
                continue
            ctxs.append(exp_ctx(c, show_contexts, show_hidden))
    text = ""
    if f.lineno != 0 and not f.hide_line:
        text = linecache.getline(f.filename, f.lineno, f.pyframe.f_globals).strip()
    has_code = not (f.contexts and f.contexts[-1].is_exiting) and bool(text)
    return {"name": f.funcname, "lineno": f.lineno, "contexts": ctxs, "code": has_code}


def exp_ctx(c, show_contexts, show_hidden):
    inner = None
    if getattr(c, "inner_stack", None) is not None:
        inner = exp_stack(c.inner_stack, show_contexts, show_hidden)
    children = []
    for ch in getattr(c, "children", ()):
        if hasattr(ch, "frames"):
            children.append({"inner": exp_stack(ch, show_contexts, show_hidden), "children": [], "kind": "stack"})
        else:
            if ch.hide and not show_hidden:
                continue
            children.append(exp_ctx(ch, show_contexts, show_hidden))
    return {"inner": inner, "children": children, "kind": "ctx"}


def same_stack(ps, ex, path):
    if ps is None:
        ps = PStack()
    if len(ps.frames) != len(ex["frames"]):
        return "%s: %d frames read back, the Stack has %d visible" % (path, len(ps.frames), len(ex["frames"]))
    for i, (pf, ef) in enumerate(zip(ps.frames, ex["frames"])):
        p2 = "%s/frame%d(%s)" % (path, i, ef["name"])
        if not pf.header.startswith(ef["name"] + " in ") and (" " + ef["name"] + " in ") not in (" " + pf.header) and ("." + ef["name"] + " in ") not in pf.header:
            return "%s: header %r does not name the function" % (p2, pf.header)
        if not pf.header.rstrip().endswith(":%d" % ef["lineno"]):
            return "%s: header %r does not end in the line number %d" % (p2, pf.header, ef["lineno"])
        if (pf.code is not None) != ef["code"]:
            return "%s: code line present=%r, expected %r" % (p2, pf.code is not None, ef["code"])
        if len(pf.contexts) != len(ef["contexts"]):
            return "%s: %d contexts read back, expected %d" % (p2, len(pf.contexts), len(ef["contexts"]))
        for j, (pc, ec) in enumerate(zip(pf.contexts, ef["contexts"])):
            r = same_ctx(pc, ec, "%s/ctx%d" % (p2, j))
            if r:
                return r
    if (ps.leaf is not None) != ex["leaf"]:
        return "%s: leaf present=%r, expected %r" % (path, ps.leaf is not None, ex["leaf"])
    if bool(ps.error) != ex["error"]:
        return "%s: error block present=%r, expected %r" % (path, bool(ps.error), ex["error"])
    return None


def is_empty_stack(ex):
    return ex is None or (not ex["frames"] and not ex["leaf"] and not ex["error"])


def same_ctx(pc, ec, path):
    if is_empty_stack(ec["inner"]):
        if pc.inner is not None and (pc.inner.frames or pc.inner.leaf is not None or pc.inner.error):
            return "%s: an inner stack was read back but the Context has none" % path
    else:
        r = same_stack(pc.inner, ec["inner"], path + "/inner")
        if r:
            return r
    if len(pc.children) != len(ec["children"]):
        return "%s: %d children read back, expected %d" % (path, len(pc.children), len(ec["children"]))
    for k, (c1, c2) in enumerate(zip(pc.children, ec["children"])):
        r = same_ctx(c1, c2, "%s/child%d" % (path, k))
        if r:
            return r
    return None


def to_ascii(line):
    out = []
    i = 0
    while i + 2 <= len(line):
        tok = line[i : i + 2]
        if tok in TOK:
            out.append(TOK[tok])
            i += 2
            if tok in TERMINAL:
                break
        else:
            break
    return "".join(out) + line[i:]


BOX = set("╠║╚├│└─")


def check_format(ctx, st, label):
    """All C18 clauses for one Stack."""
    for show_contexts in (True, False):
        for show_hidden in (False, True):
            where = "%s [show_contexts=%r show_hidden_frames=%r]" % (label, show_contexts, show_hidden)
            try:
                uni = st.format(show_contexts=show_contexts, show_hidden_frames=show_hidden)
                asc = st.format(ascii_only=True, show_contexts=show_contexts, show_hidden_frames=show_hidden)
            except Exception as e:
                raise Violation("c18_format_raised", "%s: format() raised %r" % (where, e), {})
            for lines, kind in ((uni, "unicode"), (asc, "ascii")):
                for l in lines:
                    if not isinstance(l, str) or not l.endswith("\n") or "\n" in l[:-1]:
                        raise Violation("c18_line_termination", "%s: %s element is not one newline-terminated line: %r" % (where, kind, l), {})
            ctx.stat("c18_renderings")
            body = [l[:-1] for l in uni[1:]]
            ps = parse_stack_body(body, where)
            ex = exp_stack(st, show_contexts, show_hidden)
            r = same_stack(ps, ex, "stack")
            if r:
                raise Violation("c18_structure_not_recovered", "%s: %s\n%s" % (where, r, "".join(uni)[:3000]), {"options": [show_contexts, show_hidden]})
            if not show_contexts:
                for l in body:
                    if l.startswith("║ ") and not l.startswith("║ └ "):
                        raise Violation("c18_contexts_shown", "%s: show_contexts=False printed %r" % (where, l), {})
            if len(uni) != len(asc):
                raise Violation("c18_ascii_differs", "%s: ascii_only output has %d lines, unicode %d" % (where, len(asc), len(uni)), {})
            for u, a in zip(uni[1:], asc[1:]):
                if to_ascii(u) != a:
                    raise Violation("c18_ascii_differs", "%s: ascii line %r is not the marker-for-marker translation of %r (expected %r)" % (where, a, u, to_ascii(u)), {})
                if BOX & set(a):
                    # only if it came from content (reprs / source), which our worlds keep ASCII
                    raise Violation("c18_ascii_not_ascii", "%s: box-drawing character in ascii_only output: %r" % (where, a), {})
            if show_contexts and not show_hidden:
                if str(st) != "".join(uni):
                    raise Violation("c18_str_differs", "%s: str(stack) != ''.join(stack.format())" % where, {})


# ---------------------------------------------------------------------------
# C19: reference projection to FrameSummary entries


def name_and_type(c):
    if c.obj is not None:
        return "%s: %s" % (c.varname or "_", type(c.obj).__name__)
    if c.varname is not None:
        return "%s" % c.varname
    return ""


def project_stack(st, show_contexts, show_hidden):
    out = []
    for f in st.frames:
        if f.hide and not show_hidden:
            continue
        if show_contexts:
            for c in f.contexts:
                out.extend(project_ctx(c, f, show_hidden))
            if not (f.contexts and f.contexts[-1].is_exiting):
                out.append((f.filename, f.lineno, f.funcname))
        else:
            out.append((f.filename, f.lineno, f.funcname))
    return out


def project_ctx(c, parent, show_hidden):
    if c.hide and not show_hidden:
        return []
    info = name_and_type(c)
    out = [(parent.filename, c.start_line or parent.lineno, parent.funcname + (" (%s)" % info if info else ""))]
    if c.inner_stack is not None:
        out.extend(project_stack(c.inner_stack, True, show_hidden))
    for ch in c.children:
        if not hasattr(ch, "frames"):
            out.extend(project_ctx(ch, parent, show_hidden))
    return out


def check_summary(ctx, st, label):
    for show_contexts in (False, True):
        for show_hidden in (False, True):
            for capture_locals in (False, True):
                where = "%s [show_contexts=%r show_hidden_frames=%r capture_locals=%r]" % (label, show_contexts, show_hidden, capture_locals)
                try:
                    summ = st.as_stdlib_summary(show_contexts=show_contexts, show_hidden_frames=show_hidden, capture_locals=capture_locals)
                except Exception as e:
                    raise Violation("c19_summary_raised", "%s: as_stdlib_summary raised %r" % (where, e), {})
                ctx.stat("c19_summaries")
                got = [(fs.filename, fs.lineno, fs.name) for fs in summ]
                exp = project_stack(st, show_contexts, show_hidden)
                if got != exp:
                    n = 0
                    while n < min(len(got), len(exp)) and got[n] == exp[n]:
                        n += 1
                    raise Violation(
                        "c19_projection_differs",
                        "%s: summary entry %d is %r, the documented projection gives %r (lengths %d / %d)"
                        % (where, n, got[n] if n < len(got) else None, exp[n] if n < len(exp) else None, len(got), len(exp)),
                        {"options": [show_contexts, show_hidden, capture_locals]},
                    )
                if not isinstance(summ, traceback.StackSummary):
                    raise Violation("c19_type", "not a StackSummary", {})
                # picklable, and holds no frame
                try:
                    back = pickle.loads(pickle.dumps(summ))
                except Exception as e:
                    raise Violation("c19_not_picklable", "%s: pickle round trip raised %r" % (where, e), {})
                if [(f.filename, f.lineno, f.name, f.locals) for f in back] != [(f.filename, f.lineno, f.name, f.locals) for f in summ]:
                    raise Violation("c19_pickle_differs", "%s: summary changed by a pickle round trip" % where, {})
                seen = set()
                todo = list(summ)
                steps = 0
                while todo and steps < 3000:
                    o = todo.pop()
                    steps += 1
                    if id(o) in seen:
                        continue
                    seen.add(id(o))
                    if isinstance(o, types.FrameType):
                        raise Violation("c19_holds_frame", "%s: the summary references a frame object" % where, {})
                    if isinstance(o, (str, int, type, types.ModuleType, types.FunctionType, types.CodeType)):
                        continue
                    todo.extend(gc.get_referents(o))
                if capture_locals:
                    for fs in summ:
                        if fs.locals is not None and any(not isinstance(v, str) for v in fs.locals.values()):
                            raise Violation("c19_locals_not_strings", "%s: captured locals are not strings" % where, {})
    # format_flat is the header + the standard rendering of the summary + leaf + error
    for show_contexts in (False, True):
        try:
            flat = st.format_flat(show_contexts=show_contexts)
        except Exception as e:
            raise Violation("c19_format_flat_raised", "%s: format_flat raised %r" % (label, e), {})
        exp = [st._format_header()]
        if st.frames:
            exp.extend(st.as_stdlib_summary(show_contexts=show_contexts).format())
        if st.leaf is not None:
            exp.append("  Target of innermost frame: %r\n" % (st.leaf,))
        if st.error is not None:
            tail = flat[len(exp):]
            if not tail or tail[0] != "  Error while extracting stack:\n":
                raise Violation("c19_format_flat_differs", "%s: error lines missing from format_flat" % label, {})
            flat = flat[: len(exp)]
        if flat != exp:
            raise Violation("c19_format_flat_differs", "%s: format_flat(show_contexts=%r) is not header + summary.format() + leaf line" % (label, show_contexts), {})


# ---------------------------------------------------------------------------
# perturbations of a real Stack (tape-drawn)


def all_frames(st, acc=None):
    if acc is None:
        acc = []
    for f in st.frames:
        acc.append(f)
        for c in f.contexts:
            ctx_frames(c, acc)
    return acc


def ctx_frames(c, acc):
    if c.inner_stack is not None:
        all_frames(c.inner_stack, acc)
    for ch in c.children:
        if hasattr(ch, "frames"):
            all_frames(ch, acc)
        else:
            ctx_frames(ch, acc)


def all_contexts(st, acc=None):
    if acc is None:
        acc = []
    for f in st.frames:
        for c in f.contexts:
            ctx_all(c, acc)
    return acc


def ctx_all(c, acc):
    acc.append(c)
    if c.inner_stack is not None:
        all_contexts(c.inner_stack, acc)
    for ch in c.children:
        if hasattr(ch, "frames"):
            all_contexts(ch, acc)
        else:
            ctx_all(ch, acc)


class Root(object):
    def __init__(self, n):
        self.n = n

    def __repr__(self):
        return "<task %d>" % self.n


def perturb(rng, st, extra_stacks):
    """Mutate st in place; returns a list of what was done."""
    import stackscope

    done = []
    frames = all_frames(st)
    ctxs = all_contexts(st)
    for f in frames:
        if rng.random() < 0.15:
            f.hide = not f.hide
            done.append("hide-frame")
        if rng.random() < 0.1:
            f.hide_line = True
            done.append("hide-line")
    for c in ctxs:
        r = rng.random()
        if r < 0.1:
            c.hide = True
            done.append("hide-ctx")
        elif r < 0.2:
            c.start_line = None
            done.append("drop-start_line")
        elif r < 0.3:
            c.description = None if c.description else "described(%d)" % rng.randrange(9)
            done.append("toggle-description")
        elif r < 0.4:
            c.varname = None
            done.append("drop-varname")
        elif r < 0.45:
            c.obj = None
            done.append("drop-obj")
        if rng.random() < 0.06:
            # an inner stack that has no frames (e.g. what extract_child gives for an opaque
            # object), but may still carry a leaf and / or an error
            inner = stackscope.Stack(root=Root(3000 + rng.randrange(9)), frames=[])
            if rng.randrange(3):
                inner.leaf = Root(2100 + rng.randrange(9))
            if rng.randrange(2):
                try:
                    raise KeyError("empty inner failure %d" % rng.randrange(9))
                except KeyError as e:
                    inner.error = e
            c.inner_stack = inner
            done.append("empty-inner")
        elif c.inner_stack is not None:
            r2 = rng.random()
            if r2 < 0.12:
                c.inner_stack.leaf = Root(2000 + rng.randrange(9))
                done.append("inner-leaf")
            elif r2 < 0.24:
                try:
                    raise KeyError("inner failure %d" % rng.randrange(9))
                except KeyError as e:
                    c.inner_stack.error = e
                done.append("inner-error")
        if rng.random() < 0.12:
            # attach child task stacks: stub or populated, with or without root
            kids = list(c.children)
            for _ in range(1 + rng.randrange(2)):
                k = rng.randrange(4)
                if k == 0:
                    kids.append(stackscope.Stack(root=Root(rng.randrange(99)), frames=[]))
                    done.append("child-stub")
                elif k == 1 and extra_stacks:
                    src = extra_stacks[rng.randrange(len(extra_stacks))]
                    kids.append(stackscope.Stack(root=Root(rng.randrange(99)), frames=list(src.frames), leaf=src.leaf, error=src.error))
                    done.append("child-populated")
                elif k == 2 and extra_stacks:
                    src = extra_stacks[rng.randrange(len(extra_stacks))]
                    kids.append(stackscope.Stack(root=None, frames=list(src.frames)))
                    done.append("child-unidentified")
                else:
                    kids.append(stackscope.Context(obj=None, is_async=bool(rng.randrange(2)), description="extra child %d" % rng.randrange(9)))
                    done.append("child-context")
            c.children = kids
    if rng.random() < 0.2:
        st.leaf = Root(1000 + rng.randrange(9))
        done.append("leaf")
    if rng.random() < 0.25:
        try:
            raise ValueError("simulated failure %d\nsecond line" % rng.randrange(9))
        except ValueError as e:
            st.error = e
        done.append("error")
    return done

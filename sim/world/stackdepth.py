"""Static value-stack depth per instruction (CPython 3.9 / 3.10 bytecode) and the
set of object addresses that are live on a frame's value stack right now.

Used by the racing legs of C07 on <= 3.10, where a running frame does not record
its stack top: for a thread that is parked (baton) the harness knows the exact
instruction it is at, so it can tell whether an address that the inspecting code
is about to turn into an object reference is still owned by the frame.
"""
import ctypes
import dis
import sys

WS = ctypes.sizeof(ctypes.c_size_t)
_cache = {}

NOFALL = ("JUMP_ABSOLUTE", "JUMP_FORWARD", "JUMP_BACKWARD", "JUMP_BACKWARD_NO_INTERRUPT", "RETURN_VALUE", "RETURN_CONST", "RAISE_VARARGS", "RERAISE")


def depths(code):
    m = _cache.get(id(code))
    if m is not None and m[0] is code:
        return m[1]
    ins = list(dis.get_instructions(code))
    by_off = dict((i.offset, k) for k, i in enumerate(ins))
    depth = {}
    work = [(0, 1 if ins and ins[0].opname == "GEN_START" else 0)]
    if sys.version_info >= (3, 11):
        # zero-cost exception handling: handlers are not jump targets; the table says to which
        # depth the stack is cut before the exception (and, if asked, the last instruction) is pushed
        for e in dis._parse_exception_table(code):
            work.append((by_off[e.target], e.depth + 1 + (1 if e.lasti else 0)))
    while work:
        k, d = work.pop()
        if k >= len(ins):
            continue
        i = ins[k]
        if i.offset in depth:
            continue
        depth[i.offset] = d
        op = i.opcode
        arg = i.arg if op >= dis.HAVE_ARGUMENT else None
        isjump = op in dis.hasjrel or op in dis.hasjabs
        if isjump:
            work.append((by_off[i.argval], d + dis.stack_effect(op, arg, jump=True)))
        if i.opname in NOFALL:
            continue
        if i.opname == "RETURN_GENERATOR":
            eff = 1  # leaves the new generator on the stack (POP_TOP follows); dis says 0
        else:
            eff = dis.stack_effect(op, arg, jump=False) if isjump else dis.stack_effect(op, arg)
        work.append((k + 1, d + eff))
    if len(_cache) > 512:
        _cache.clear()
    _cache[id(code)] = (code, depth)
    return depth


def _owned_by_live_generator(frame):
    """Is this the frame of a generator-like object that has not finished?  (A frame that
    finished by an exception keeps its last f_lasti, e.g. at a YIELD_FROM, but owns nothing.)"""
    import gc

    for r in gc.get_referrers(frame):
        for attr in ("gi_frame", "cr_frame", "ag_frame"):
            try:
                if getattr(r, attr, None) is frame:
                    return True
            except Exception:
                pass
    return False


SELF_CHECKS = [0]
_opnames = {}


def _opname_at(code, offset):
    m = _opnames.get(id(code))
    if m is None or m[0] is not code:
        m = (code, dict((i.offset, i.opname) for i in dis.get_instructions(code)))
        if len(_opnames) > 512:
            _opnames.clear()
        _opnames[id(code)] = m
    return m[1].get(offset)


def owned_slot_range(frame, impl):
    """CPython >= 3.11: (address of the first value-stack slot, number of slots the frame owns
    right now) of `frame`, whose thread must be parked (or the frame suspended / finished).
    impl = stackscope._lowlevel_cpython_311 (for its struct layouts).  None if unknown."""
    assert sys.version_info >= (3, 11)
    fp = impl.FrameObjectFramePointer.from_address(id(frame)).f_frame
    if not fp:
        return None
    ifr = impl.InterpreterFrame.from_address(fp)
    co = frame.f_code
    nlp = len(set(co.co_varnames + co.co_cellvars)) + len(co.co_freevars)
    base = fp + ctypes.sizeof(impl.InterpreterFrame) + WS * nlp
    if ifr.owner == impl.FRAME_OWNED_BY_FRAME_OBJECT:
        return base, 0  # finished: owns nothing any more
    if ifr.stacktop != -1:
        n = ifr.stacktop - nlp
        if frame.f_lasti >= 0 and _owned_by_live_generator(frame):
            ins = _opname_at(co, frame.f_lasti)
            d = depths(co).get(frame.f_lasti)
            if ins == "YIELD_VALUE" and d is not None:
                SELF_CHECKS[0] += 1
                if d - 1 != n:
                    from ..kernel import HarnessError

                    raise HarnessError("static stack depth %d-1 at %s of %s, the interpreter recorded %d" % (d, ins, co.co_name, n))
        return base, max(n, 0)
    if frame.f_lasti < 0:
        return base, 0
    # f_lasti of a frame inside a call is the last inline-cache entry of its CALL
    n = depth_at(co, frame.f_lasti)
    if n is None:
        return None
    return base, n


def depth_at(code, offset):
    d = depths(code)
    if offset in d:
        return d[offset]
    best = None
    for off in d:
        if off <= offset and (best is None or off > best):
            best = off
    return d.get(best) if best is not None else None


def live_slots(frame, raw_struct, finished):
    """[address or 0] for every value-stack slot the frame owns at this moment
    (index = slot number).  The frame's thread must be parked, or the frame
    suspended / finished.  None if the position is unknown."""
    assert sys.version_info < (3, 11)
    raw = raw_struct.from_address(id(frame))
    if raw.f_stacktop != 0:
        # suspended generator frame, or (3.10) a finished frame: the frame says how much it owns
        n = (raw.f_stacktop - raw.f_valuestack) // WS
        # self-check of the static depth computation, whenever the interpreter does record the
        # depth: a frame suspended at YIELD_VALUE / YIELD_FROM has popped the yielded value
        if frame.f_lasti >= 0 and not finished and _owned_by_live_generator(frame):
            ins = _opname_at(frame.f_code, frame.f_lasti)
            d = depths(frame.f_code).get(frame.f_lasti)
            if ins in ("YIELD_VALUE", "YIELD_FROM") and d is not None:
                SELF_CHECKS[0] += 1
                if d - 1 != n:
                    from ..kernel import HarnessError

                    raise HarnessError("static stack depth %d-1 at %s of %s, the interpreter recorded %d" % (d, ins, frame.f_code.co_name, n))
    elif finished:
        return []
    else:
        if frame.f_lasti < 0:
            return []
        n = depths(frame.f_code).get(frame.f_lasti)
        if n is None:
            return None
    return [ctypes.c_size_t.from_address(raw.f_valuestack + k * WS).value for k in range(n)]


class OwnershipLog(object):
    """History of what one frame's value stack owned during one inspect_frame call.

    A record is taken when the call starts and after every step the inspected thread
    is allowed to take (it runs at no other time).  Every object seen in a record is
    pinned (strong reference) until the call ends, so an address that appears in two
    records names the same object: no address is reused while the log is open, which
    makes the verdict independent of the allocator.
    """

    def __init__(self, frame, raw_struct, finished_fn):
        self.frame = frame
        self.raw_struct = raw_struct
        self.finished_fn = finished_fn
        raw = raw_struct.from_address(id(frame))
        self.base = raw.f_valuestack
        self.nslots = frame.f_code.co_stacksize
        self.records = []
        self.pins = []
        self.reads = {}  # address -> [(slot, clock)]
        self.unknown = False
        self.record()

    @property
    def clock(self):
        return len(self.records) - 1

    def record(self):
        slots = live_slots(self.frame, self.raw_struct, self.finished_fn(self.frame))
        if slots is None:
            self.unknown = True
            slots = []
        for k, a in enumerate(slots):
            if a:
                try:
                    self.pins.append(ctypes.py_object.from_address(self.base + k * WS).value)
                except ValueError:
                    pass
        self.records.append(slots)

    def slot_of(self, address):
        off = address - self.base
        if 0 <= off < self.nslots * WS and off % WS == 0:
            return off // WS
        return None

    def note_read(self, slot, value):
        if value:
            self.reads.setdefault(value, []).append((slot, self.clock))

    def owned_since_read(self, address):
        """Was `address` read from a slot that has owned that same object from the
        moment of the read until now?"""
        for slot, t0 in self.reads.get(address, ()):
            ok = True
            for rec in self.records[t0:]:
                if slot >= len(rec) or rec[slot] != address:
                    ok = False
                    break
            if ok:
                return True
        return False

    def close(self):
        self.pins = []

"""Save / restore stackscope's process-global registries around a run (the same
trick as the repository's `local_registry` fixture), so runs in one worker
process do not see each other's registrations."""
import gc
import types


def _unwrap_mp(dct):
    if isinstance(dct, types.MappingProxyType):
        (dct,) = gc.get_referents(dct)
    return dct


class RegistrySnapshot(object):
    def __init__(self):
        import stackscope  # noqa
        from stackscope import _customization as cust
        from stackscope import _glue

        _glue.add_glue_as_needed()
        self.cust = cust
        self.dicts = [
            _unwrap_mp(cust.elaborate_frame.registry),
            _unwrap_mp(cust.unwrap_context_generator.registry),
            _glue.builtin_glue_pending,
        ]
        self.sd = [cust.unwrap_stackitem, cust.unwrap_context, cust.elaborate_context]
        for h in self.sd:
            self.dicts.append(_unwrap_mp(h.registry))
        self.saved = [list(d.items()) for d in self.dicts]

    def restore(self):
        for d, items in zip(self.dicts, self.saved):
            if list(d.items()) != items:
                d.clear()
                d.update(items)
        for h in self.sd:
            h._clear_cache()

"""Observers of the program world: compare what stackscope reports with the
shadow model the world keeps about itself.  Each property enables a subset
(`checks`); a discrepancy raises kernel.Violation with a property-specific kind.
"""
import ast
import dis
import sys
import types
import warnings

from ..kernel import Violation

PY = sys.version_info[:2]


def walk_frames(st):
    for f in st.frames:
        yield f
        for c in f.contexts:
            for x in walk_ctx(c):
                yield x


def walk_ctx(c):
    if c.inner_stack is not None:
        for x in walk_frames(c.inner_stack):
            yield x
    for ch in c.children:
        if hasattr(ch, "frames"):
            for x in walk_frames(ch):
                yield x
        else:
            for x in walk_ctx(ch):
                yield x


def mgr_name(W, m):
    """Identity-free name of a manager for logs."""
    if m is None:
        return None
    for i, x in enumerate(W.all_mgrs):
        if x is m:
            return "M%d:%s" % (i, type(m).__name__)
    return "?" + type(m).__name__


def ctx_summary(W, contexts):
    return [(mgr_name(W, c.obj), bool(c.is_async), bool(c.is_exiting)) for c in contexts]


def shadow_summary(W, rec):
    return [(mgr_name(W, e.mgr), bool(e.is_async), e.state == "exiting") for e in rec.shadow]


def compare_exact(W, rec, contexts, kind_prefix, where):
    """C01/C02: contexts must equal the shadow exactly (identity, order, flags)."""
    sh = rec.shadow
    ok = len(contexts) == len(sh)
    if ok:
        for c, e in zip(contexts, sh):
            if c.obj is not e.mgr or bool(c.is_async) != bool(e.is_async) or bool(c.is_exiting) != (e.state == "exiting"):
                ok = False
                break
    if not ok and len(contexts) == len(sh):
        # managers whose exit method is not bound (staticmethod): the frame holds a plain
        # function, nothing refers to the manager; obj=None is all that can be said (K2)
        only_unknowable = True
        for c, e in zip(contexts, sh):
            same = c.obj is e.mgr or (c.obj is None and getattr(e.mgr, "unbound_exit", False))
            if not same or bool(c.is_async) != bool(e.is_async) or bool(c.is_exiting) != (e.state == "exiting"):
                only_unknowable = False
                break
        if only_unknowable:
            raise Violation(
                "%s_obj_unknowable_unbound_exit" % kind_prefix,
                "%s: frame %s: the manager(s) whose __exit__/__aexit__ is a staticmethod are reported with obj=None; everything else is exact" % (where, rec),
                {"frame": repr(rec), "where": where},
            )
    if not ok:
        got = ctx_summary(W, contexts)
        exp = shadow_summary(W, rec)
        sub = "wrong"
        if len(got) < len(exp):
            sub = "missing"
        elif len(got) > len(exp):
            sub = "extra"
        elif [g[0] for g in got] != [e[0] for e in exp]:
            sub = "obj"
        elif [g[2] for g in got] != [e[2] for e in exp]:
            sub = "exiting_flag"
        elif [g[1] for g in got] != [e[1] for e in exp]:
            sub = "async_flag"
        raise Violation(
            "%s_contexts_%s" % (kind_prefix, sub),
            "%s: frame %s (line %s): reported %r, shadow %r" % (where, rec, rec.pyframe.f_lineno, got, exp),
            {"frame": repr(rec), "line": rec.pyframe.f_lineno, "reported": got, "shadow": exp, "where": where},
        )


_opcache = {}


def site_shape(frame):
    """Distinctness measure: the (up to 9) opcodes around f_lasti, i.e. how this
    suspension / call site was reached (for an exiting frame: the path into the
    __exit__ call sequence)."""
    code = frame.f_code
    ops = _opcache.get(id(code))
    if ops is None or ops[0] is not code:
        lst = []
        for ins in dis.get_instructions(code):
            lst.append((ins.offset, ins.opname))
        ops = (code, lst)
        if len(_opcache) > 64:
            _opcache.clear()
        _opcache[id(code)] = ops
    lasti = frame.f_lasti
    lst = ops[1]
    idx = None
    for i, (off, name) in enumerate(lst):
        if off <= lasti:
            idx = i
        else:
            break
    if idx is None:
        return ("start",)
    names = [n for (_, n) in lst[max(0, idx - 7): idx + 2] if n != "CACHE"]
    return tuple(names)


class Battery(object):
    def __init__(self, ctx, checks, W):
        self.ctx = ctx
        self.checks = set(checks)
        self.W = W
        self.nobs = 0

    # ---- suspended root ----
    def on_suspend(self, W, root, kind):
        import stackscope
        from stackscope import lowlevel

        ctx = self.ctx
        self.nobs += 1
        ctx.stat("observations")
        if "c09" in self.checks and ctx.tape.choose(4) == 0:
            self.faulted_prior(root)
        with warnings.catch_warnings(record=True) as wl:
            warnings.simplefilter("always")
            st = stackscope.extract(root)
        iw = [w for w in wl if issubclass(w.category, stackscope.InspectionWarning)]
        ctx.log("S", kind, len(st.frames), st.error is not None)
        if "c01" in self.checks:
            if iw:
                raise Violation(
                    "c01_inspection_warning",
                    "InspectionWarning while extracting suspended root: %s" % (str(iw[0].message)[:200],),
                    {"warning": str(iw[0].message)[:500]},
                )
            if st.error is not None:
                raise Violation("c01_error", "extract(root).error = %r" % (st.error,), {})
            seen_root = False
            for i, f in enumerate(st.frames):
                rec = W.rec_of(f.pyframe)
                if rec is None:
                    continue
                if rec is W.frames[0]:
                    seen_root = True
                ctx.cover(("susp", PY, site_shape(f.pyframe), len(rec.shadow), bool(rec.shadow and rec.shadow[-1].state == "exiting")))
                ctx.log("F", rec.id, f.lineno, tuple(shadow_summary(W, rec)))
                compare_exact(W, rec, f.contexts, "c01", "suspended")
                # and through the low-level entry point directly
                nxt = st.frames[i + 1].pyframe if i + 1 < len(st.frames) else None
                with warnings.catch_warnings(record=True) as wl2:
                    warnings.simplefilter("always")
                    direct = lowlevel.contexts_active_in_frame(f.pyframe, f.origin, nxt)
                if [w for w in wl2 if issubclass(w.category, stackscope.InspectionWarning)]:
                    raise Violation("c01_inspection_warning", "InspectionWarning from contexts_active_in_frame: %s" % str(wl2[0].message)[:200], {})
                compare_exact(W, rec, direct, "c01", "suspended/lowlevel")
            # frames inside inner stacks of generator-based managers
            for f in walk_frames(st):
                rec = W.rec_of(f.pyframe)
                if rec is not None and rec.owner is not None:
                    compare_exact(W, rec, f.contexts, "c01", "suspended/inner_stack")
            if not seen_root and st.frames:
                raise Violation("c01_root_frame_missing", "root frame not first in extract(root)", {})
        for name in ("c08", "c09", "c16", "c18", "c19"):
            if name in self.checks:
                getattr(self, "check_" + name)(W, st, root, "suspended")
        if "c16" in self.checks:
            self.c16_outermost(W, root, st)
            for g in W.genlikes[:6]:
                if not gen_running(g):
                    self.c16_outermost(W, g, None)
        return st

    def faulted_prior(self, root):
        """C09 history step: an earlier extraction of the same root in which the k-th fill_context (the step
        that describes a context, an exit-stack entry included) raised. The fault is contained by extract
        (C05's business); what C09 needs is that the NEXT, fault-free extraction still unfolds the exact tree:
        nothing about a stack or manager may stay marked 'in progress' after the failed pass."""
        import stackscope
        from stackscope import _extract

        ctx = self.ctx
        real = _extract.fill_context
        k = ctx.tape.choose(8)
        n = [0]

        def faulty(c):
            n[0] += 1
            if n[0] - 1 == k:
                ctx.stat("c09_prior_fault_fired")
                raise RuntimeError("vsim: injected fault in fill_context #%d" % k)
            return real(c)

        _extract.fill_context = faulty
        try:
            with warnings.catch_warnings():
                warnings.simplefilter("ignore")
                try:
                    stackscope.extract(root)
                except Exception:
                    ctx.stat("c09_prior_fault_escaped")
        finally:
            _extract.fill_context = real
        ctx.log("prior_fault", k, n[0])

    def c16_outermost(self, W, x, st):
        """extract_outermost(x) equals extract(x).frames[0]; raises iff there are no frames."""
        import stackscope

        if st is None:
            st = stackscope.extract(x)
        self.ctx.stat("c16_outermost_checked")
        try:
            fo = stackscope.extract_outermost(x)
        except Exception as e:
            if st.frames:
                raise Violation("c16_outermost_raises", "extract_outermost(%s) raises %r but extract() has %d frames" % (type(x).__name__, e, len(st.frames)), {})
            if st.error is not None and (type(e) is not type(st.error) or str(e) != str(st.error)):
                raise Violation("c16_outermost_wrong_error", "extract_outermost raised %r, extract().error is %r" % (e, st.error), {})
            self.ctx.stat("c16_outermost_raised_on_frameless")
            return
        if not st.frames:
            raise Violation("c16_outermost_no_raise", "extract(%s) has no frames but extract_outermost returned %r" % (type(x).__name__, fo), {})
        f0 = st.frames[0]
        same = (
            fo.pyframe is f0.pyframe
            and fo.lineno == f0.lineno
            and fo.hide == f0.hide
            and fo.hide_line == f0.hide_line
            and fo.origin is f0.origin
            and len(fo.contexts) == len(f0.contexts)
            and all(a.obj is b.obj and a.is_async == b.is_async and a.is_exiting == b.is_exiting and a.varname == b.varname and a.start_line == b.start_line for a, b in zip(fo.contexts, f0.contexts))
        )
        if not same:
            raise Violation("c16_outermost_differs", "extract_outermost(%s) differs from extract().frames[0]: %r vs %r" % (type(x).__name__, fo, f0), {})

    # ---- running frames (probe) ----
    def on_probe(self, W, F, pid, where):
        import stackscope
        from stackscope import lowlevel

        ctx = self.ctx
        ctx.stat("probes")
        # Ground truth of "frames running on the calling thread": the f_back chain.
        # (While an exception thrown with throw() is being delivered through a
        # non-generator awaitable -- anext()/asend()/athrow() objects --, CPython
        # does not link the delegating frame, so a logically-running coroutine can
        # be absent from the chain; such a frame is not an ancestor of the caller.)
        chain = []
        fr = sys._getframe(1)
        while fr is not None:
            chain.append(fr)
            fr = fr.f_back
        chain.reverse()
        outer = None
        for fr in chain:
            if W.rec_of(fr) is not None:
                outer = fr
                break
        if outer is None:
            ctx.stat("probe_without_world_ancestor")
            return None
        if outer is not W.frames[0].pyframe:
            ctx.stat("root_frame_unlinked")
        chain = chain[chain.index(outer):]
        with warnings.catch_warnings(record=True) as wl:
            warnings.simplefilter("always")
            st = stackscope.extract_since(outer)
        iw = [w for w in wl if issubclass(w.category, stackscope.InspectionWarning)]
        ctx.log("P", pid, where, len(st.frames), st.error is not None)
        if "c02" in self.checks:
            if iw:
                raise Violation("c02_inspection_warning", "InspectionWarning while extracting running stack: %s" % str(iw[0].message)[:200], {"probe": pid})
            if st.error is not None:
                raise Violation("c02_error", "extract_since(outer world frame).error = %r" % (st.error,), {"probe": pid})
            if not st.frames or st.frames[0].pyframe is not outer:
                raise Violation("c02_root_frame_missing", "outer frame not first", {"probe": pid})
            for i, f in enumerate(st.frames):
                rec = W.rec_of(f.pyframe)
                if rec is None:
                    continue
                nxt = st.frames[i + 1].pyframe if i + 1 < len(st.frames) else None
                ctx.cover(("run", PY, where, site_shape(f.pyframe), len(rec.shadow), bool(rec.shadow and rec.shadow[-1].state == "exiting")))
                ctx.log("F", rec.id, f.lineno, tuple(shadow_summary(W, rec)))
                unlinked = False
                if rec.shadow and rec.shadow[-1].state == "exiting" and nxt is not None:
                    co = nxt.f_code
                    first = nxt.f_locals.get(co.co_varnames[0]) if co.co_argcount else None
                    if first is not rec.shadow[-1].mgr:
                        unlinked = True
                        ctx.stat("exit_frame_unlinked")
                self.compare_running(W, rec, f.contexts, "running(%s)" % where, unlinked)
                direct = lowlevel.contexts_active_in_frame(f.pyframe, None, nxt)
                self.compare_running(W, rec, direct, "running(%s)/lowlevel" % where, unlinked)
            if F is not None and not F.done and any(fr is F.pyframe for fr in chain):
                if not any(f.pyframe is F.pyframe for f in st.frames):
                    raise Violation("c02_probing_frame_missing", "frame %r that owns the probe site is not in the extracted running stack" % F, {"probe": pid})
        for name in ("c08", "c09", "c16", "c18", "c19"):
            if name in self.checks:
                getattr(self, "check_" + name)(W, st, None, "running")
        if "c16" in self.checks and outer is W.frames[0].pyframe:
            # the root task is running and we are inside it: extract(root task)
            st2 = stackscope.extract(W.root)
            self.check_c16(W, st2, W.root, "running_root")
            self.c16_outermost(W, W.root, st2)
        return st

    def compare_running(self, W, rec, contexts, where, unlinked):
        if not unlinked:
            return compare_exact(W, rec, contexts, "c02", where)
        # The frame of the exit method is not on the interpreter's stack (see
        # on_probe); everything but the exiting manager's identity is still
        # checked exactly, and the identity is reported under its own kind.
        sh = rec.shadow
        if contexts and len(contexts) == len(sh) and contexts[-1].is_exiting and contexts[-1].obj is not sh[-1].mgr:
            import dataclasses

            fixed = list(contexts[:-1]) + [dataclasses.replace(contexts[-1], obj=sh[-1].mgr)]
            compare_exact(W, rec, fixed, "c02", where)
            raise Violation(
                "c02_exiting_obj_when_exit_frame_unlinked",
                "%s: frame %s: exiting manager reported as %s, is %s; the exit method's frame is not on the thread's frame stack "
                "(exception delivered by throw() through a non-generator awaitable)"
                % (where, rec, mgr_name(W, contexts[-1].obj), mgr_name(W, sh[-1].mgr)),
                {"state": "exit_frame_unlinked", "frame": repr(rec)},
            )
        compare_exact(W, rec, contexts, "c02", where)

    # ------------------------------------------------------------------
    # C08: start_line / varname
    def aligned(self, W, f):
        """[(Context, Entry)] when the frame's contexts line up with the shadow."""
        rec = W.rec_of(f.pyframe)
        if rec is None or len(rec.shadow) != len(f.contexts):
            return rec, None
        for c, e in zip(f.contexts, rec.shadow):
            if c.obj is not e.mgr:
                return rec, None
        return rec, list(zip(f.contexts, rec.shadow))

    def check_c08(self, W, st, root, mode):
        ctx = self.ctx
        for f in walk_frames(st):
            rec, pairs = self.aligned(W, f)
            if not pairs:
                continue
            for c, e in pairs:
                info = W.prog.items.get((rec.name, e.k))
                if info is None:
                    continue
                ctx.stat("c08_contexts_checked")
                ctx.cover(("c08", PY, info.get("layout"), info.get("nitems"), target_class(info), bool(info["is_async"])))
                ctx.log("c08", rec.id, e.k, c.start_line, c.varname)
                if c.start_line != info["line"]:
                    raise Violation(
                        "c08_start_line",
                        "%s item k=%d of %s: start_line=%r, the with keyword is on line %r (layout %r, %d items)"
                        % (mode, e.k, rec.name, c.start_line, info["line"], info.get("layout"), info.get("nitems", 1)),
                        {"layout": info.get("layout"), "nitems": info.get("nitems")},
                    )
                tgt = info["target"]
                v = c.varname
                if tgt is not None and info["supported"]:
                    if v is None:
                        raise Violation("c08_varname_dropped", "%s item k=%d of %s: target %r (supported form) rendered as None" % (mode, e.k, rec.name, tgt), {"target": tgt})
                    if not expr_equal(v, tgt):
                        raise Violation("c08_varname_wrong", "%s item k=%d of %s: target %r rendered as %r" % (mode, e.k, rec.name, tgt, v), {"target": tgt, "varname": v})
                else:
                    if v is None:
                        continue
                    if tgt is not None and expr_equal(v, tgt):
                        continue
                    loc = f.pyframe.f_locals
                    if v in loc and loc[v] is c.obj:
                        ctx.stat("c08_fallback_local")
                        continue
                    raise Violation(
                        "c08_varname_wrong",
                        "%s item k=%d of %s: target %r (no reconstructible target) rendered as %r, which is neither the target nor a local bound to the manager"
                        % (mode, e.k, rec.name, tgt, v),
                        {"target": tgt, "varname": v},
                    )

    # ------------------------------------------------------------------
    # C09: generator-based managers and exit stacks
    def check_c09(self, W, st, root, mode, top=True):
        import contextlib

        ctx = self.ctx
        GCM = contextlib._GeneratorContextManagerBase
        main = [f.pyframe for f in st.frames]
        for idx, f in enumerate(st.frames):
            rec, pairs = self.aligned(W, f)
            if not pairs:
                continue
            for c, e in pairs:
                self.c09_context(W, c, e.mgr, e.state == "exiting", main, idx, mode)

    def c09_context(self, W, c, mgr, exiting, main, idx, mode):
        import contextlib

        ctx = self.ctx
        GCM = contextlib._GeneratorContextManagerBase
        if isinstance(mgr, GCM):
            ctx.stat("c09_gcm_checked")
            gen = mgr.gen
            chain = gen_chain(gen)
            if not exiting:
                ctx.cover(("c09", "gcm", PY, mode, len(chain), hasattr(gen, "ag_frame")))
                if c.inner_stack is None:
                    raise Violation("c09_inner_stack_missing", "%s: non-exiting generator-based manager %s has no inner_stack" % (mode, mgr_name(W, mgr)), {})
                got = [x.pyframe for x in c.inner_stack.frames]
                if len(got) != len(chain) or any(a is not b for a, b in zip(got, chain)):
                    raise Violation(
                        "c09_inner_stack_frames",
                        "%s: inner_stack of %s has frames %r, the generator chain is %r"
                        % (mode, mgr_name(W, mgr), [x.f_code.co_name for x in got], [x.f_code.co_name for x in chain]),
                        {},
                    )
                if c.inner_stack.error is not None:
                    raise Violation("c09_inner_stack_error", "%s: inner_stack.error=%r" % (mode, c.inner_stack.error), {})
                for x in c.inner_stack.frames:
                    r2 = W.rec_of(x.pyframe)
                    if r2 is not None:
                        compare_exact(W, r2, x.contexts, "c09", mode + "/inner_stack")
                        rr, pp = self.aligned(W, x)
                        for c2, e2 in pp or []:
                            self.c09_context(W, c2, e2.mgr, e2.state == "exiting", [], 0, mode + "/inner")
            else:
                ctx.cover(("c09", "gcm_exiting", PY, mode))
                if c.inner_stack is not None:
                    raise Violation("c09_inner_stack_while_exiting", "%s: exiting generator-based manager %s has an inner_stack" % (mode, mgr_name(W, mgr)), {})
                if main and chain:
                    later = main[idx + 1:]
                    linked = bool(later) and self.exit_linked(later[0], mgr)
                    if linked and not any(x is chain[0] for x in later):
                        raise Violation(
                            "c09_exiting_frames_not_in_main_series",
                            "%s: generator frame of exiting manager %s not found in the main frame series after its frame" % (mode, mgr_name(W, mgr)),
                            {},
                        )
        elif hasattr(mgr, "vs_expected_children"):
            ctx.stat("c09_es_checked")
            exp = mgr.vs_expected_children()
            got = list(c.children)
            ctx.cover(("c09", "es", PY, mode, tuple(r["method"] for r in exp), exiting))
            if len(got) != len(exp):
                raise Violation(
                    "c09_es_children_count",
                    "%s: exit stack %s has %d children reported, %d registered and not yet run (%r)"
                    % (mode, mgr_name(W, mgr), len(got), len(exp), [r["method"] for r in exp]),
                    {},
                )
            for i, (ch, r) in enumerate(zip(got, exp)):
                if not hasattr(ch, "is_async") or hasattr(ch, "frames"):
                    raise Violation("c09_es_child_type", "child %d is %r, not a Context" % (i, type(ch).__name__), {})
                o = ch.obj
                okobj = o is r["obj"] or getattr(o, "__wrapped__", None) is r["obj"]
                if not okobj:
                    raise Violation(
                        "c09_es_child_obj",
                        "%s: child %d (%s) obj is %s, registered %s" % (mode, i, r["method"], mgr_name(W, o), mgr_name(W, r["obj"])),
                        {"method": r["method"]},
                    )
                if bool(ch.is_async) != bool(r["is_async"]):
                    raise Violation("c09_es_child_async", "%s: child %d (%s) is_async=%r" % (mode, i, r["method"], ch.is_async), {"method": r["method"]})
                want = ES_DESCR[r["method"]]
                d = ch.description or ""
                if getattr(r["obj"], "nameless_exit", False) and ".push(" in d:
                    # its exit callable does not say that it is an __exit__: described as pushed
                    continue
                if want not in d:
                    raise Violation(
                        "c09_es_child_description",
                        "%s: child %d registered with %s is described as %r (expected it to name %r)" % (mode, i, r["method"], d, want),
                        {"method": r["method"]},
                    )
                if isinstance(r["obj"], GCM) or hasattr(r["obj"], "vs_expected_children"):
                    self.c09_context(W, ch, r["obj"], False, [], 0, mode + "/es_child")

    def exit_linked(self, nxt, mgr):
        co = nxt.f_code
        if not co.co_argcount:
            return False
        return nxt.f_locals.get(co.co_varnames[0]) is mgr

    # ------------------------------------------------------------------
    # C16: origin / extract_outermost
    def check_c16(self, W, st, root, mode):
        import weakref
        import stackscope

        ctx = self.ctx
        owners = {}
        for g in list(W.genlikes) + [W.root]:
            for attr in ("cr_frame", "gi_frame", "ag_frame"):
                fr = getattr(g, attr, None)
                if fr is not None:
                    owners[id(fr)] = g
        for m in W.all_mgrs:
            g = getattr(m, "gen", None)
            if g is not None:
                for attr in ("gi_frame", "ag_frame"):
                    fr = getattr(g, attr, None)
                    if fr is not None:
                        owners[id(fr)] = g
        for f in walk_frames(st):
            o = f.origin
            ctx.stat("c16_frames_checked")
            ctx.cover(("c16", PY, mode, type(o).__name__, W.rec_of(f.pyframe) is not None))
            if o is not None:
                try:
                    weakref.ref(o)
                except TypeError:
                    raise Violation("c16_origin_not_weakrefable", "origin %r of frame %s cannot be weakly referenced" % (type(o).__name__, f.funcname), {})
                try:
                    fo = stackscope.extract_outermost(o)
                except Exception as e:
                    raise Violation(
                        "c16_origin_does_not_recover_frame",
                        "%s: frame %s has origin %s but extract_outermost(origin) raises %r" % (mode, f.funcname, type(o).__name__, e),
                        {"origin_type": type(o).__name__},
                    )
                if fo.pyframe is not f.pyframe:
                    raise Violation(
                        "c16_origin_does_not_recover_frame",
                        "%s: frame %s (line %s) has origin %s, but extract_outermost(origin).pyframe is frame %s"
                        % (mode, f.funcname, f.lineno, type(o).__name__, fo.funcname),
                        {"origin_type": type(o).__name__, "mode": mode},
                    )
            g = owners.get(id(f.pyframe))
            if g is not None and mode == "suspended" and not gen_running(g):
                if o is not g:
                    raise Violation(
                        "c16_origin_missing",
                        "%s: frame %s is the frame of a suspended %s but origin is %r" % (mode, f.funcname, type(g).__name__, type(o).__name__),
                        {},
                    )


ES_DESCR = {
    "enter_context": ".enter_context(",
    "push_mgr": ".enter_context(",  # contextlib stores the same bound __exit__ for both
    "push_fn": ".push(",
    "push_method": ".push(",
    "callback": ".callback(",
    "enter_async_context": ".enter_async_context(",
    "push_async_exit_mgr": ".enter_async_context(",
    "push_async_exit_fn": ".push_async_exit(",
    "push_async_exit_method": ".push_async_exit(",
    "push_async_callback": ".push_async_callback(",
}


def gen_running(g):
    for a in ("gi_running", "cr_running"):
        if getattr(g, a, False):
            return True
    if getattr(g, "ag_running", False) and getattr(g, "ag_await", None) is None:
        return True
    return False


def gen_chain(gen):
    """Frames of a suspended generator / async generator and what it delegates to."""
    out = []
    seen = 0
    while gen is not None and seen < 50:
        seen += 1
        fr = getattr(gen, "gi_frame", None) or getattr(gen, "ag_frame", None) or getattr(gen, "cr_frame", None)
        if fr is None:
            break
        out.append(fr)
        nxt = None
        if getattr(gen, "gi_running", False) or getattr(gen, "cr_running", False) or getattr(gen, "ag_running", False):
            # never read gi_yieldfrom / ag_await of a running generator: on
            # CPython 3.12.1 that can return a garbage pointer (interpreter bug)
            break
        for a in ("gi_yieldfrom", "ag_await", "cr_await"):
            if hasattr(gen, a):
                nxt = getattr(gen, a)
                break
        gen = nxt if (hasattr(nxt, "gi_frame") or hasattr(nxt, "ag_frame") or hasattr(nxt, "cr_frame")) else None
    return out


def target_class(info):
    t = info.get("target")
    if t is None:
        return "none" if not info.get("prebound") else "prebound"
    if not info.get("supported"):
        return "unsupported"
    for ch, name in (("*", "starred"), ("(", "tuple_or_call"), ("[", "subscript_or_list"), (".", "attr")):
        if ch in t:
            return name
    return "cell" if t.startswith("cx") else "name"


class _Norm(ast.NodeTransformer):
    def visit_List(self, node):
        self.generic_visit(node)
        return ast.Tuple(elts=node.elts, ctx=ast.Load())

    def visit_Name(self, node):
        return ast.Name(id=node.id, ctx=ast.Load())

    def generic_visit(self, node):
        node = ast.NodeTransformer.generic_visit(self, node)
        if hasattr(node, "ctx"):
            node.ctx = ast.Load()
        return node


def expr_equal(a, b):
    try:
        ta = _Norm().visit(ast.parse(a.strip(), mode="eval"))
        tb = _Norm().visit(ast.parse(b.strip(), mode="eval"))
    except SyntaxError:
        return False
    return ast.dump(ta) == ast.dump(tb)


# ----------------------------------------------------------------------
# C20: fallback (referents) analysis is a sound ordered over-approximation
def c20_relation(W, rec, R, where):
    """R: reported contexts in referents mode; compare with the shadow T of rec."""
    T = rec.shadow
    t_active = [e for e in T if e.state != "exiting"]
    t_exiting = [e for e in T if e.state == "exiting"]
    r_active = [c for c in R if not c.is_exiting]
    r_exiting = [c for c in R if c.is_exiting]
    got = ctx_summary(W, R)
    exp = shadow_summary(W, rec)
    detail = {"reported": got, "shadow": exp, "frame": repr(rec), "entering": mgr_name(W, rec.entering), "where": where}
    # every truly active manager appears, in order, with right obj / is_async
    j = 0
    allowed_extra = []
    if rec.entering is not None:
        allowed_extra.append(rec.entering)
    for e in t_exiting:
        allowed_extra.append(e.mgr)
    extras = []
    for c in r_active:
        if j < len(t_active) and c.obj is t_active[j].mgr:
            if bool(c.is_async) != bool(t_active[j].is_async):
                raise Violation("c20_async_flag", "%s: %s reported with is_async=%r: reported %r shadow %r" % (where, mgr_name(W, c.obj), c.is_async, got, exp), detail)
            j += 1
        else:
            extras.append(c)
    if j < len(t_active):
        raise Violation(
            "c20_active_manager_missing",
            "%s: frame %s: active manager %s missing or out of order: reported %r, shadow %r" % (where, rec, mgr_name(W, t_active[j].mgr), got, exp),
            detail,
        )
    for c in extras:
        if not any(c.obj is a for a in allowed_extra):
            raise Violation(
                "c20_unjustified_extra",
                "%s: frame %s: extra entry %s is neither being entered nor exited: reported %r, shadow %r, entering %s"
                % (where, rec, mgr_name(W, c.obj), got, exp, mgr_name(W, rec.entering)),
                detail,
            )
    if len(r_exiting) != (1 if t_exiting else 0):
        raise Violation(
            "c20_exiting_flag",
            "%s: frame %s: %d is_exiting entries reported, exit in progress: %r (reported %r, shadow %r)" % (where, rec, len(r_exiting), bool(t_exiting), got, exp),
            detail,
        )
    if r_exiting:
        if R[-1] is not r_exiting[0]:
            raise Violation("c20_exiting_not_last", "%s: exiting entry is not last: %r" % (where, got), detail)
        if bool(r_exiting[0].is_async) != bool(t_exiting[0].is_async):
            raise Violation("c20_exiting_async_flag", "%s: exiting entry is_async=%r, shadow %r" % (where, r_exiting[0].is_async, exp), detail)
        if r_exiting[0].obj is not None and r_exiting[0].obj is not t_exiting[0].mgr:
            raise Violation("c20_exiting_obj", "%s: exiting obj %s, shadow %r" % (where, mgr_name(W, r_exiting[0].obj), exp), detail)
    return len(extras)


class C20Battery(Battery):
    """(a) referents mode at every suspension; (b) an exception injected at the k-th
    call of each step of the trickery analysis, for every k of the fault-free run."""

    STEPS = ("analyze_with_blocks", "inspect_frame", "currently_exiting_context")

    def on_suspend(self, W, root, kind):
        import stackscope
        from stackscope import _lowlevel as ll

        ctx = self.ctx
        self.nobs += 1
        ctx.stat("observations")
        mode = self.ctx.params.get("mode", "off")
        if mode == "off":
            ll.set_trickery_enabled(False)
            try:
                with warnings.catch_warnings(record=True) as wl:
                    warnings.simplefilter("always")
                    st = stackscope.extract(root)
            finally:
                ll.set_trickery_enabled(None)
            if st.error is not None:
                raise Violation("c20_error", "extract(root).error=%r with trickery disabled" % (st.error,), {})
            if [w for w in wl if issubclass(w.category, stackscope.InspectionWarning)]:
                raise Violation("c20_warning_in_referents_mode", "InspectionWarning with trickery disabled: %s" % str(wl[0].message)[:200], {})
            for i, f in enumerate(walk_frames(st)):
                rec = W.rec_of(f.pyframe)
                if rec is None:
                    continue
                if any(c.start_line is not None for c in f.contexts):
                    raise Violation("c20_mode_not_applied", "start_line present although trickery is disabled", {})
                n = c20_relation(W, rec, f.contexts, "referents")
                ctx.stat("c20_frames_checked")
                if n:
                    ctx.stat("c20_extras_seen", n)
                ctx.cover(("c20", PY, len(rec.shadow), n, bool(rec.shadow and rec.shadow[-1].state == "exiting"), rec.entering is not None))
                ctx.log("c20", rec.id, tuple(ctx_summary(W, f.contexts)))
            return st
        # mode == "fault": count calls of each step in a fault-free extraction
        # (after auto-detection has run its own self-test through the same functions)
        ll._check_trickery_available()
        counts = {}
        orig = dict((name, getattr(ll, name)) for name in self.STEPS)

        def counting(name):
            def fn(*a, **k):
                counts[name] = counts.get(name, 0) + 1
                return orig[name](*a, **k)

            return fn

        for name in self.STEPS:
            setattr(ll, name, counting(name))
        try:
            st0 = stackscope.extract(root)
        finally:
            for name in self.STEPS:
                setattr(ll, name, orig[name])
        total = sum(counts.values())
        # every (step, k) of this suspension: complete single-fault enumeration
        for name in self.STEPS:
            for k in range(counts.get(name, 0)):
                seen = [0]
                injected = []

                def faulty(*a, **kw):
                    i = seen[0]
                    seen[0] += 1
                    if i == k:
                        e = RuntimeError("injected fault in %s call %d" % (name, k))
                        injected.append(e)
                        raise e
                    return orig[name](*a, **kw)

                setattr(ll, name, faulty)
                try:
                    with warnings.catch_warnings(record=True) as wl:
                        warnings.simplefilter("always")
                        try:
                            st = stackscope.extract(root)
                        except Exception as e:
                            raise Violation("c20_fault_escaped", "exception escaped extract() when %s call %d raised: %r" % (name, k, e), {"step": name, "k": k})
                finally:
                    setattr(ll, name, orig[name])
                if not injected:
                    continue
                ctx.fault("trickery_step_raises:" + name)
                iw = [w for w in wl if issubclass(w.category, stackscope.InspectionWarning)]
                if not iw:
                    raise Violation("c20_fault_without_warning", "%s call %d raised but no InspectionWarning was emitted" % (name, k), {"step": name, "k": k})
                if st.error is not None:
                    raise Violation("c20_fault_recorded_as_error", "analysis failure became Stack.error=%r instead of a warning only" % (st.error,), {"step": name})
                if len(st.frames) != len(st0.frames):
                    raise Violation("c20_fault_changed_frames", "frames differ after an analysis fault", {"step": name})
                for f in walk_frames(st):
                    rec = W.rec_of(f.pyframe)
                    if rec is not None:
                        c20_relation(W, rec, f.contexts, "fault:%s#%d" % (name, k))
                ctx.cover(("c20fault", PY, name, min(k, 6), min(total, 12)))
        ctx.log("c20f", total)
        return st0

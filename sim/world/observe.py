"""Observers of the program world: compare what stackscope reports with the
shadow model the world keeps about itself.  Each property enables a subset
(`checks`); a discrepancy raises kernel.Violation with a property-specific kind.
"""
import ast
import dis
import sys
import types
import warnings

from ..kernel import Violation

PY = sys.version_info[:2]


def walk_frames(st):
    for f in st.frames:
        yield f
        for c in f.contexts:
            for x in walk_ctx(c):
                yield x


def walk_ctx(c):
    if c.inner_stack is not None:
        for x in walk_frames(c.inner_stack):
            yield x
    for ch in c.children:
        if hasattr(ch, "frames"):
            for x in walk_frames(ch):
                yield x
        else:
            for x in walk_ctx(ch):
                yield x


def mgr_name(W, m):
    """Identity-free name of a manager for logs."""
    if m is None:
        return None
    for i, x in enumerate(W.all_mgrs):
        if x is m:
            return "M%d:%s" % (i, type(m).__name__)
    return "?" + type(m).__name__


def ctx_summary(W, contexts):
    return [(mgr_name(W, c.obj), bool(c.is_async), bool(c.is_exiting)) for c in contexts]


def shadow_summary(W, rec):
    return [(mgr_name(W, e.mgr), bool(e.is_async), e.state == "exiting") for e in rec.shadow]


def compare_exact(W, rec, contexts, kind_prefix, where):
    """C01/C02: contexts must equal the shadow exactly (identity, order, flags)."""
    sh = rec.shadow
    ok = len(contexts) == len(sh)
    if ok:
        for c, e in zip(contexts, sh):
            if c.obj is not e.mgr or bool(c.is_async) != bool(e.is_async) or bool(c.is_exiting) != (e.state == "exiting"):
                ok = False
                break
    if not ok:
        got = ctx_summary(W, contexts)
        exp = shadow_summary(W, rec)
        sub = "wrong"
        if len(got) < len(exp):
            sub = "missing"
        elif len(got) > len(exp):
            sub = "extra"
        elif [g[0] for g in got] != [e[0] for e in exp]:
            sub = "obj"
        elif [g[2] for g in got] != [e[2] for e in exp]:
            sub = "exiting_flag"
        elif [g[1] for g in got] != [e[1] for e in exp]:
            sub = "async_flag"
        raise Violation(
            "%s_contexts_%s" % (kind_prefix, sub),
            "%s: frame %s (line %s): reported %r, shadow %r" % (where, rec, rec.pyframe.f_lineno, got, exp),
            {"frame": repr(rec), "line": rec.pyframe.f_lineno, "reported": got, "shadow": exp, "where": where},
        )


_opcache = {}


def site_shape(frame):
    """Distinctness measure: opcode 4-gram ending at f_lasti."""
    code = frame.f_code
    ops = _opcache.get(id(code))
    if ops is None or ops[0] is not code:
        lst = []
        for ins in dis.get_instructions(code):
            lst.append((ins.offset, ins.opname))
        ops = (code, lst)
        if len(_opcache) > 64:
            _opcache.clear()
        _opcache[id(code)] = ops
    lasti = frame.f_lasti
    lst = ops[1]
    idx = None
    for i, (off, name) in enumerate(lst):
        if off <= lasti:
            idx = i
        else:
            break
    if idx is None:
        return ("start",)
    names = [n for (_, n) in lst[max(0, idx - 3): idx + 2]]
    return tuple(names)


class Battery(object):
    def __init__(self, ctx, checks, W):
        self.ctx = ctx
        self.checks = set(checks)
        self.W = W
        self.nobs = 0

    # ---- suspended root ----
    def on_suspend(self, W, root, kind):
        import stackscope
        from stackscope import lowlevel

        ctx = self.ctx
        self.nobs += 1
        ctx.stat("observations")
        with warnings.catch_warnings(record=True) as wl:
            warnings.simplefilter("always")
            st = stackscope.extract(root)
        iw = [w for w in wl if issubclass(w.category, stackscope.InspectionWarning)]
        ctx.log("S", kind, len(st.frames), st.error is not None)
        if "c01" in self.checks:
            if iw:
                raise Violation(
                    "c01_inspection_warning",
                    "InspectionWarning while extracting suspended root: %s" % (str(iw[0].message)[:200],),
                    {"warning": str(iw[0].message)[:500]},
                )
            if st.error is not None:
                raise Violation("c01_error", "extract(root).error = %r" % (st.error,), {})
            seen_root = False
            for i, f in enumerate(st.frames):
                rec = W.rec_of(f.pyframe)
                if rec is None:
                    continue
                if rec is W.frames[0]:
                    seen_root = True
                ctx.cover(("susp", PY, site_shape(f.pyframe), len(rec.shadow), bool(rec.shadow and rec.shadow[-1].state == "exiting")))
                ctx.log("F", rec.id, f.lineno, tuple(shadow_summary(W, rec)))
                compare_exact(W, rec, f.contexts, "c01", "suspended")
                # and through the low-level entry point directly
                nxt = st.frames[i + 1].pyframe if i + 1 < len(st.frames) else None
                with warnings.catch_warnings(record=True) as wl2:
                    warnings.simplefilter("always")
                    direct = lowlevel.contexts_active_in_frame(f.pyframe, f.origin, nxt)
                if [w for w in wl2 if issubclass(w.category, stackscope.InspectionWarning)]:
                    raise Violation("c01_inspection_warning", "InspectionWarning from contexts_active_in_frame: %s" % str(wl2[0].message)[:200], {})
                compare_exact(W, rec, direct, "c01", "suspended/lowlevel")
            # frames inside inner stacks of generator-based managers
            for f in walk_frames(st):
                rec = W.rec_of(f.pyframe)
                if rec is not None and rec.owner is not None:
                    compare_exact(W, rec, f.contexts, "c01", "suspended/inner_stack")
            if not seen_root and st.frames:
                raise Violation("c01_root_frame_missing", "root frame not first in extract(root)", {})
        for name in ("c08", "c09", "c16", "c18", "c19"):
            if name in self.checks:
                getattr(self, "check_" + name)(W, st, root, "suspended")
        return st

    # ---- running frames (probe) ----
    def on_probe(self, W, F, pid, where):
        import stackscope
        from stackscope import lowlevel

        ctx = self.ctx
        ctx.stat("probes")
        # Ground truth of "frames running on the calling thread": the f_back chain.
        # (While an exception thrown with throw() is being delivered through a
        # non-generator awaitable -- anext()/asend()/athrow() objects --, CPython
        # does not link the delegating frame, so a logically-running coroutine can
        # be absent from the chain; such a frame is not an ancestor of the caller.)
        chain = []
        fr = sys._getframe(1)
        while fr is not None:
            chain.append(fr)
            fr = fr.f_back
        chain.reverse()
        outer = None
        for fr in chain:
            if W.rec_of(fr) is not None:
                outer = fr
                break
        if outer is None:
            ctx.stat("probe_without_world_ancestor")
            return None
        if outer is not W.frames[0].pyframe:
            ctx.stat("root_frame_unlinked")
        chain = chain[chain.index(outer):]
        with warnings.catch_warnings(record=True) as wl:
            warnings.simplefilter("always")
            st = stackscope.extract_since(outer)
        iw = [w for w in wl if issubclass(w.category, stackscope.InspectionWarning)]
        ctx.log("P", pid, where, len(st.frames), st.error is not None)
        if "c02" in self.checks:
            if iw:
                raise Violation("c02_inspection_warning", "InspectionWarning while extracting running stack: %s" % str(iw[0].message)[:200], {"probe": pid})
            if st.error is not None:
                raise Violation("c02_error", "extract_since(outer world frame).error = %r" % (st.error,), {"probe": pid})
            if not st.frames or st.frames[0].pyframe is not outer:
                raise Violation("c02_root_frame_missing", "outer frame not first", {"probe": pid})
            for i, f in enumerate(st.frames):
                rec = W.rec_of(f.pyframe)
                if rec is None:
                    continue
                nxt = st.frames[i + 1].pyframe if i + 1 < len(st.frames) else None
                ctx.cover(("run", PY, where, site_shape(f.pyframe), len(rec.shadow), bool(rec.shadow and rec.shadow[-1].state == "exiting")))
                ctx.log("F", rec.id, f.lineno, tuple(shadow_summary(W, rec)))
                unlinked = False
                if rec.shadow and rec.shadow[-1].state == "exiting" and nxt is not None:
                    co = nxt.f_code
                    first = nxt.f_locals.get(co.co_varnames[0]) if co.co_argcount else None
                    if first is not rec.shadow[-1].mgr:
                        unlinked = True
                        ctx.stat("exit_frame_unlinked")
                self.compare_running(W, rec, f.contexts, "running(%s)" % where, unlinked)
                direct = lowlevel.contexts_active_in_frame(f.pyframe, None, nxt)
                self.compare_running(W, rec, direct, "running(%s)/lowlevel" % where, unlinked)
            if F is not None and not F.done and any(fr is F.pyframe for fr in chain):
                if not any(f.pyframe is F.pyframe for f in st.frames):
                    raise Violation("c02_probing_frame_missing", "frame %r that owns the probe site is not in the extracted running stack" % F, {"probe": pid})
        for name in ("c08", "c09", "c16", "c18", "c19"):
            if name in self.checks:
                getattr(self, "check_" + name)(W, st, None, "running")
        return st

    def compare_running(self, W, rec, contexts, where, unlinked):
        if not unlinked:
            return compare_exact(W, rec, contexts, "c02", where)
        # The frame of the exit method is not on the interpreter's stack (see
        # on_probe); everything but the exiting manager's identity is still
        # checked exactly, and the identity is reported under its own kind.
        sh = rec.shadow
        if contexts and len(contexts) == len(sh) and contexts[-1].is_exiting and contexts[-1].obj is not sh[-1].mgr:
            import dataclasses

            fixed = list(contexts[:-1]) + [dataclasses.replace(contexts[-1], obj=sh[-1].mgr)]
            compare_exact(W, rec, fixed, "c02", where)
            raise Violation(
                "c02_exiting_obj_when_exit_frame_unlinked",
                "%s: frame %s: exiting manager reported as %s, is %s; the exit method's frame is not on the thread's frame stack "
                "(exception delivered by throw() through a non-generator awaitable)"
                % (where, rec, mgr_name(W, contexts[-1].obj), mgr_name(W, sh[-1].mgr)),
                {"state": "exit_frame_unlinked", "frame": repr(rec)},
            )
        compare_exact(W, rec, contexts, "c02", where)

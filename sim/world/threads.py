"""Thread worlds: each target is a real thread running a generated sync
program; it parks in a C-level lock.acquire() at generated yield points (made
either directly from the generated frame or through a Python helper) and is
stepped by the controller, so which thread runs is always a tape decision.
"""
import dis
import sys
import threading
import time

from ..kernel import HarnessError
from . import driver

_attrcache = {}


def call_attr_at(code, offset):
    """Name of the attribute loaded for the CALL instruction at `offset` (None if it is no call)."""
    m = _attrcache.get(id(code))
    if m is None or m[0] is not code:
        d = {}
        last_attr = None
        for ins in dis.get_instructions(code):
            if ins.opname in ("LOAD_ATTR", "LOAD_METHOD"):
                last_attr = ins.argval
            elif ins.opname.startswith("CALL") or ins.opname == "PRECALL":
                d[ins.offset] = last_attr
        m = (code, d)
        if len(_attrcache) > 256:
            _attrcache.clear()
        _attrcache[id(code)] = m
    return m[1].get(offset)


def loop_template(tape):
    """A thread that goes round a loop, re-creating its managers every time and
    parking at the same instruction: the state in which a stale f_lasti check is
    not enough (value-stack slots of two iterations)."""
    n = 2 + tape.choose(3)
    items = ", ".join("W.m(F, %d, 'S', (), (), 0, 0)" % k for k in range(n))
    serial = [100]

    def park():
        # directly in a C call (the frame does not record its stack top then), or through a
        # Python helper (it does: the interpreter saves it when it calls Python code)
        if tape.choose(2):
            return "W.rel(); W.acq()"
        serial[0] += 1
        return "W.probe(F, %d)" % serial[0]

    lines = [
        "def f0(W):",
        "    F = W.frame('f0')",
        "    for i0 in range(%d):" % (4 + tape.choose(8)),
        "        with %s:" % items,
        "            " + park(),
    ]
    if tape.choose(2):
        lines.append("            " + park())
    if tape.choose(2):
        # ... and parks in the loop but outside the with block: the frame keeps coming back to
        # the same instruction, with other stack depths in between
        lines.append("        " + park())
        if tape.choose(2):
            lines.insert(3, "        " + park())
    if tape.choose(3) == 0:
        lines.append("    " + park())
    return "\n".join(lines) + "\n"


class Target(object):
    def __init__(self, ctx, name, force=None, text=None):
        f = {"only_sync": True, "park": True, "probe": True, "asyncmgr": False, "call": True}
        if text is None and ctx.tape.choose(3) == 2:
            # some of the thread's frames belong to coroutines / generators it is driving
            f["drive"] = True
            del f["asyncmgr"]
            ctx.stat("threads_driving_generator_likes")
        f.update(force or {})
        self.b = driver.build(ctx, f, "sync", text=text)
        self.W = self.b.W
        self.name = name
        self.go = threading.Lock()
        self.go.acquire()
        self.back = threading.Lock()
        self.back.acquire()
        W = self.W
        W.abort = False
        W.rel = self.back.release
        W.acq = self.go.acquire
        W.probe_hook = self._probe_hook
        self.done = False
        self.started = False
        self.thread = threading.Thread(target=self._body, name="target-" + name)
        self.thread.daemon = True
        self.steps = 0
        self.program = self.b.prog.text

    def _probe_hook(self, W, F, pid, where):
        # Python-helper flavour of a yield point
        self.back.release()
        self.go.acquire()

    def _body(self):
        self.go.acquire()
        try:
            self.b.ns[self.b.prog.root.name](self.W)
        except BaseException:
            pass
        finally:
            self.done = True
            self.back.release()

    def start(self):
        self.thread.start()
        self.started = True
        self.wait_parked()

    def innermost(self):
        return sys._current_frames().get(self.thread.ident)

    def is_parked(self):
        fr = self.innermost()
        if fr is None:
            return False
        attr = call_attr_at(fr.f_code, fr.f_lasti)
        return attr in ("acq", "acquire")

    def wait_parked(self):
        """Block (polling) until the thread rests inside its lock.acquire() call or is dead.
        Polling time never enters a log."""
        n = 0
        t0 = None
        while True:
            if self.done:
                self.thread.join(20)
                return
            if self.is_parked() and self.go.locked():
                return
            n += 1
            if n > 2000:
                # a loaded machine: stop spinning, wait by the clock (never logged)
                if t0 is None:
                    t0 = time.time()
                elif time.time() - t0 > 45:
                    raise HarnessError("target %s did not park" % self.name)
                time.sleep(0.0002)
            else:
                time.sleep(0)

    def step(self):
        """Let the target run to its next yield point (or to its end)."""
        if self.done or not self.started:
            return False
        self.steps += 1
        self.go.release()
        if not self.back.acquire(timeout=60):
            raise HarnessError("target %s did not yield" % self.name)
        self.wait_parked()
        return True

    def finish(self):
        n = 0
        while self.started and not self.done and n < 500:
            self.step()
            n += 1
        if self.started:
            self.thread.join(20)
        driver.cleanup(self.b)

    def stack(self):
        """Ground truth while parked: the thread's frames, outermost first."""
        fr = self.innermost()
        out = []
        while fr is not None:
            out.append(fr)
            fr = fr.f_back
        out.reverse()
        return out

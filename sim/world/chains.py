"""Chain world (C03): await / yield-from chains of depth 0..6 whose links are
drawn from every link kind; no handler catches BaseException, so a thrown
Probe unwinds the whole chain and its traceback is the oracle.
"""
import contextlib
import linecache
import sys
import types

from . import rt

PY = sys.version_info[:2]


class Probe(BaseException):
    pass


class AwWrapper(object):
    """__await__ returns a coroutine_wrapper (coro.__await__())."""

    def __init__(self, coro):
        self.coro = coro

    def __await__(self):
        return self.coro.__await__()


class AwGen(object):
    """__await__ is a generator function (adds its own frame to the chain)."""

    def __init__(self, W, inner):
        self.W = W
        self.inner = inner

    def __await__(self):
        F = self.W.frame("AwGen.__await__")
        r = yield from self.inner.__await__()
        return r


class AwReturnsGen(object):
    """__await__ returns a generator iterator made elsewhere."""

    def __init__(self, gen):
        self.gen = gen

    def __await__(self):
        return self.gen


class LeafIter(object):
    """A plain (non-frame) iterator that suspends once: the chain's leaf."""

    def __init__(self, W, tid):
        self.W = W
        self.tid = tid
        self.state = 0

    def __iter__(self):
        return self

    def __next__(self):
        if self.state == 0:
            self.state = 1
            self.W.ev("trap", self.tid)
            return ("trap", self.tid)
        raise StopIteration(None)

    def send(self, v):
        return self.__next__()

    def throw(self, typ, val=None, tb=None):
        if val is None:
            if isinstance(typ, type):
                val = typ()
            else:
                val = typ
        raise val

    def close(self):
        pass


class LeafIterFalsy(LeafIter):
    """A leaf whose truth value is False (a drained queue-like iterator)."""

    def __bool__(self):
        return False


class LeafIterEmptyLen(LeafIter):
    def __len__(self):
        return 0


LEAF_KINDS = [LeafIter, LeafIterFalsy, LeafIterEmptyLen]


class AwLeaf(object):
    def __init__(self, W, tid, kind=0):
        self.it = LEAF_KINDS[kind](W, tid)
        W.leaves[tid] = self.it

    def __await__(self):
        return self.it


def leaf_iter(W, tid, kind=0):
    it = LEAF_KINDS[kind](W, tid)
    W.leaves[tid] = it
    return it


LINKS_ASYNC_TO = {
    "coro": ["await", "wrapper", "awgen"],
    "gbcoro": ["await"],
    "gen": ["awreturnsgen"],
    "agen": ["asyncfor", "anext", "asend", "athrow_inflight", "aclose_inflight"],
    "leaf": ["awleaf"],
}
if sys.version_info >= (3, 10):
    # the two-argument form of the anext() builtin wraps the awaitable in an object of its own
    LINKS_ASYNC_TO["agen"].append("anext_default")
    LINKS_ASYNC_TO["coro"].append("anext_default_coro")


class AIterOf(object):
    """Async iterator whose __anext__ hands out the given awaitable."""

    def __init__(self, aw):
        self.aw = aw

    def __aiter__(self):
        return self

    def __anext__(self):
        return self.aw
LINKS_GEN_TO = {
    "gen": ["yieldfrom"],
    "gbcoro": ["yieldfrom"],
    "leaf": ["yfleaf"],
}


class ChainGen(object):
    def __init__(self, tape):
        self.t = tape
        self.lines = []
        self.nid = 0
        self.npoints = 0  # number of suspension points along the path

    def id(self):
        self.nid += 1
        return self.nid

    def generate(self):
        t = self.t
        depth = t.weighted([1, 2, 3, 3, 2, 1, 1])
        root_kind = ("coro", "gen", "agen")[t.weighted([5, 2, 2])]
        kinds = [root_kind]
        for i in range(depth):
            prev = kinds[-1]
            if prev in ("coro", "agen"):
                kinds.append(("coro", "gbcoro", "agen", "gen")[t.weighted([5, 2, 3, 1])])
            elif prev == "gbcoro":
                kinds.append(("gen", "gbcoro", "coro")[t.weighted([3, 2, 2])])
            else:  # gen
                kinds.append(("gen",)[0])
        # how the last level ends: trap or non-frame leaf
        self.kinds = kinds
        self.mode = {}
        n = len(kinds)
        for i in range(n):
            self.level(i, kinds[i], kinds[i + 1] if i + 1 < n else None)
        return "\n".join(self.lines) + "\n"

    def level(self, i, kind, nxt):
        t = self.t
        L = self.lines
        name = "c%d" % i
        if kind in ("coro", "agen"):
            L.append("async def %s(W):" % name)
        elif kind == "gbcoro":
            L.append("@types.coroutine")
            L.append("def %s(W):" % name)
        else:
            L.append("def %s(W):" % name)
        L.append("    F = W.frame(%r)" % name)
        ind = 1
        mode = self.mode.get(i)
        if mode is not None:
            # entered by asend(None) first: yield once, and go on only when the
            # in-flight athrow / aclose arrives
            L.append("    try:")
            L.append("        yield 1")
            L.append("    except W.E2:" if mode == "athrow" else "    finally:")
            ind = 2
        # optional early suspension before descending
        if t.choose(3) == 1:
            self.emit_trap(kind, ind)
        # optional enclosing manager(s) (never swallowing)
        nwith = t.weighted([3, 2, 1])
        for w in range(nwith):
            is_async = kind in ("coro", "agen") and t.choose(2) == 1
            L.append("    " * ind + "%s W.m(F, %d, %r):" % ("async with" if is_async else "with", w, "A" if is_async else "S"))
            ind += 1
        # optional handler shapes that do not catch Probe
        shape = t.weighted([4, 1, 1])
        if shape == 1:
            L.append("    " * ind + "try:")
            L.append("    " * (ind + 1) + "raise W.E1()")
            L.append("    " * ind + "except W.E1:")
            ind += 1
        elif shape == 2:
            L.append("    " * ind + "try:")
            L.append("    " * (ind + 1) + "pass")
            L.append("    " * ind + "finally:")
            ind += 1
        if nxt is None:
            # end of the chain
            c = t.weighted([3, 1])
            if c == 0:
                self.emit_trap(kind, ind)
            else:
                tid = self.id()
                lk = t.weighted([3, 1, 1])
                if kind in ("coro", "agen"):
                    L.append("    " * ind + "await AwLeaf(W, %d, %d)" % (tid, lk))
                else:
                    L.append("    " * ind + "yield from leaf_iter(W, %d, %d)" % (tid, lk))
        else:
            callee = "c%d(W)" % (i + 1)
            sid = self.id()
            if kind in ("coro", "agen"):
                link = t.pick(LINKS_ASYNC_TO[nxt])
                if link == "await":
                    L.append("    " * ind + "await W.link(F, %d, %s)" % (sid, callee))
                elif link == "wrapper":
                    L.append("    " * ind + "await AwWrapper(W.link(F, %d, %s))" % (sid, callee))
                elif link == "awgen":
                    L.append("    " * ind + "await AwGen(W, W.link(F, %d, %s))" % (sid, callee))
                elif link == "awreturnsgen":
                    L.append("    " * ind + "await AwReturnsGen(W.link(F, %d, %s))" % (sid, callee))
                elif link == "asyncfor":
                    L.append("    " * ind + "async for x in W.link(F, %d, %s):" % (sid, callee))
                    L.append("    " * (ind + 1) + "pass")
                elif link == "anext":
                    L.append("    " * ind + "await W.link(F, %d, %s).__anext__()" % (sid, callee))
                elif link == "anext_default":
                    L.append("    " * ind + "await anext(W.link(F, %d, %s), None)" % (sid, callee))
                elif link == "anext_default_coro":
                    L.append("    " * ind + "await anext(AIterOf(W.link(F, %d, %s)), None)" % (sid, callee))
                elif link == "asend":
                    L.append("    " * ind + "await W.link(F, %d, %s).asend(None)" % (sid, callee))
                elif link == "athrow_inflight":
                    L.append("    " * ind + "ag = W.link(F, %d, %s)" % (sid, callee))
                    L.append("    " * ind + "await ag.asend(None)")
                    L.append("    " * ind + "await ag.athrow(W.E2())")
                    self.mode[i + 1] = "athrow"
                else:
                    L.append("    " * ind + "ag = W.link(F, %d, %s)" % (sid, callee))
                    L.append("    " * ind + "await ag.asend(None)")
                    L.append("    " * ind + "await ag.aclose()")
                    self.mode[i + 1] = "aclose"
            else:
                L.append("    " * ind + "yield from W.link(F, %d, %s)" % (sid, callee))
        if kind == "agen":
            L.append("    if W.never: yield 0")
        if kind in ("gen", "gbcoro") and not any("yield" in l for l in L[-12:]):
            L.append("    if W.never: yield 0")
        L.append("")

    def emit_trap(self, kind, ind):
        tid = self.id()
        L = self.lines
        if kind in ("coro", "agen"):
            L.append("    " * ind + "await trap(W, F, %d)" % tid)
        else:
            L.append("    " * ind + "yield W.y(F, %d)" % tid)


_counter = [0]


class ChainWorld(object):
    def __init__(self, tape, ctx, text=None):
        if text is None:
            text = ChainGen(tape).generate()
        self.text = text
        _counter[0] += 1
        self.filename = "<vchain-%d>" % _counter[0]
        linecache.cache[self.filename] = (len(text), None, text.splitlines(True), self.filename)
        self.code = compile(text, self.filename, "exec")
        self.ctx = ctx
        self.tape = tape

    def instantiate(self):
        W = rt.World(self.tape, self.ctx)
        W.leaves = {}
        ns = {
            "W": W, "trap": rt.trap, "types": types, "contextlib": contextlib,
            "AwWrapper": AwWrapper, "AIterOf": AIterOf, "AwGen": AwGen, "AwReturnsGen": AwReturnsGen, "AwLeaf": AwLeaf,
            "leaf_iter": leaf_iter, "__name__": "vsim_chain",
        }
        exec(self.code, ns)
        return W, ns

    def close(self):
        linecache.cache.pop(self.filename, None)

"""Interpreters available in the sandbox and the environment each leg needs."""
import os

VERIF = os.path.dirname(os.path.dirname(os.path.abspath(__file__)))
TE_WHEEL = "/opt/veriftools/wheels/typing_extensions-4.16.0-py3-none-any.whl"

PYTHONS = {
    "3.12": "/venv/bin/python",
    "3.11": "/root/.pyenv/versions/3.11.7/bin/python",
    "3.10": "/root/.pyenv/versions/3.10.13/bin/python",
    "3.9": "/root/.pyenv/versions/3.9.18/bin/python",
}


def repo_dir():
    return os.path.abspath(os.environ.get("VERIF_REPO", "/repo"))


def env_for(py, hashseed="0"):
    env = dict(os.environ)
    parts = [repo_dir(), VERIF]
    if py in ("3.9", "3.10"):
        parts += [os.path.join(VERIF, "stubs"), TE_WHEEL]
    env["PYTHONPATH"] = os.pathsep.join(parts)
    env["PYTHONHASHSEED"] = str(hashseed)
    env["PYTHONDONTWRITEBYTECODE"] = "1"
    env["VERIF_REPO"] = repo_dir()
    # the guard for any hook added to /repo (none is needed so far)
    env["STACKSCOPE_VERIF"] = "1"
    return env


def available(py):
    return os.path.exists(PYTHONS[py])

"""Parent side: fan runs out to worker processes (one interpreter per leg),
aggregate, self-check determinism, minimise and replay violations, write
evidence.  Exit codes: 0 held / 1 violation / 2 harness error.
"""
import hashlib
import importlib
import json
import os
import shutil
import struct
import subprocess
import sys
import tempfile
import time

from . import interp

VERIF = interp.VERIF
SCRATCH_ROOT = os.path.join(VERIF, ".scratch")
NCPU = os.cpu_count() or 4


class Harness(Exception):
    pass


def _mk_scratch():
    os.makedirs(SCRATCH_ROOT, exist_ok=True)
    return tempfile.mkdtemp(prefix="run-", dir=SCRATCH_ROOT)


def _spawn(py, job, scratch, tag, hashseed="0"):
    jf = os.path.join(scratch, "job-%s.json" % tag)
    with open(jf, "w") as f:
        json.dump(job, f)
    out = open(os.path.join(scratch, "out-%s.txt" % tag), "w+")
    err = open(os.path.join(scratch, "err-%s.txt" % tag), "w+")
    p = subprocess.Popen(
        [interp.PYTHONS[py], "-m", "sim.worker", jf],
        stdout=out,
        stderr=err,
        cwd=VERIF,
        env=interp.env_for(py, hashseed),
    )
    p._out = out
    p._err = err
    p._job = job
    p._tag = tag
    return p


def _result_of(p):
    p._out.seek(0)
    data = p._out.read()
    res = None
    for line in data.splitlines():
        if line.startswith("RESULT "):
            res = json.loads(line[7:])
    p._err.seek(0)
    err = p._err.read()
    return res, err


def _close(p):
    for f in (p._out, p._err):
        try:
            f.close()
        except Exception:
            pass


def run_job(py, job, timeout, hashseed="0"):
    """Run one worker job synchronously; returns (returncode, result, stderr)."""
    scratch = _mk_scratch()
    try:
        p = _spawn(py, job, scratch, "x", hashseed)
        try:
            p.wait(timeout=timeout)
        except subprocess.TimeoutExpired:
            p.kill()
            p.wait()
            _close(p)
            return None, None, "timeout after %ss" % timeout
        res, err = _result_of(p)
        _close(p)
        return p.returncode, res, err
    finally:
        shutil.rmtree(scratch, ignore_errors=True)


def run_leg(prop, leg, tier, seed, log):
    """Run all batch workers of one leg. Returns aggregate dict."""
    py = leg["python"]
    n = int(leg[tier])
    budget = float(leg.get(tier + "_s", 60 if tier == "quick" else 480))
    scale = float(os.environ.get("VERIF_SCALE", "1"))
    n = max(1, int(n * scale))
    nworkers = leg.get("workers") or NCPU
    nworkers = max(1, min(nworkers, n // max(1, leg.get("min_chunk", 8)) or 1))
    scratch = _mk_scratch()
    agg = {
        "leg": leg["name"],
        "python": py,
        "planned": n,
        "runs": 0,
        "covers": set(),
        "faults": {},
        "stats": {},
        "samples": [],
        "digests": {},
        "violations": [],
        "harness_errors": [],
        "timed_out": False,
        "crashes": 0,
        "wall_s": 0.0,
    }
    t0 = time.time()
    try:
        procs = []
        for w in range(nworkers):
            job = {
                "mode": "batch",
                "prop": prop,
                "leg": leg["name"],
                "seed": seed,
                "start": w,
                "stop": n,
                "step": nworkers,
                "budget_s": budget,
                "run_timeout": leg.get("run_timeout"),
                "params": leg.get("params", {}),
                "progress": os.path.join(scratch, "progress-%d" % w),
                "digest_every": leg.get("digest_every", 50),
            }
            procs.append(_spawn(py, job, scratch, "w%d" % w, hashseed=str(leg.get("hashseed", "0"))))
        deadline = t0 + budget + 240
        pending = list(procs)
        restarts = {}
        while pending:
            for p in list(pending):
                rc = p.poll()
                if rc is None:
                    if time.time() > deadline:
                        p.kill()
                        p.wait()
                        idx, in_sut = _progress_of(p._job)
                        if in_sut and leg.get("hang_in_stackscope_is_violation") and idx is not None and idx >= 0:
                            # stuck inside a call into stackscope (a restarted worker whose own
                            # watchdog had not fired yet when the leg's time was up)
                            agg["crashes"] += 1
                            agg["violations"].append(
                                {
                                    "kind": "process_hang",
                                    "message": "worker stuck inside a call into stackscope during run %s when the leg's time was up" % idx,
                                    "detail": {"index": idx, "kind": "hang", "in_stackscope_call": True},
                                    "index": idx,
                                    "tape": None,
                                    "case": {},
                                    "subprocess_only": True,
                                }
                            )
                        else:
                            agg["harness_errors"].append("worker %s exceeded wall deadline" % p._tag)
                        pending.remove(p)
                        _close(p)
                    continue
                pending.remove(p)
                res, err = _result_of(p)
                job = p._job
                _close(p)
                if res is not None and "harness_error" in res:
                    agg["harness_errors"].append(res["harness_error"])
                    continue
                if res is not None and rc == 0:
                    _merge(agg, res)
                    continue
                # died without a result: crash (signal) or hang (faulthandler exit)
                idx, in_sut = _progress_of(job)
                hang = "Timeout (" in (err or "")
                kind = "hang" if hang else "crash"
                agg["crashes"] += 1
                info = {
                    "index": idx,
                    "returncode": rc,
                    "kind": kind,
                    "stderr_tail": (err or "")[-3000:],
                }
                flag = leg.get("hang_is_violation") if hang else leg.get("crash_is_violation")
                if hang and not flag and leg.get("hang_in_stackscope_is_violation") and in_sut:
                    # the run was inside a call into stackscope when the watchdog fired: an extraction
                    # that does not return (legs whose worlds are tiny opt in: there a run takes
                    # milliseconds, the watchdog minutes)
                    flag = True
                    info["in_stackscope_call"] = True
                if flag and idx is not None and idx >= 0:
                    agg["violations"].append(
                        {
                            "kind": "process_" + kind,
                            "message": "worker died (%s, rc=%s) during run %s" % (kind, rc, idx),
                            "detail": info,
                            "index": idx,
                            "tape": None,
                            "case": {},
                            "subprocess_only": True,
                        }
                    )
                else:
                    agg["harness_errors"].append("worker %s died: %r" % (p._tag, info))
                # continue the stripe after the fatal index
                key = job["start"] % job["step"]
                restarts[key] = restarts.get(key, 0) + 1
                if idx is not None and idx >= 0 and restarts[key] <= 4 and time.time() < deadline:
                    job2 = dict(job)
                    job2["start"] = idx + job["step"]
                    job2["budget_s"] = max(5.0, budget - (time.time() - t0))
                    np_ = _spawn(py, job2, scratch, "w%dr%d" % (key, restarts[key]))
                    pending.append(np_)
            if pending:
                time.sleep(0.05)
    finally:
        shutil.rmtree(scratch, ignore_errors=True)
    agg["wall_s"] = time.time() - t0
    return agg


def _progress_of(job):
    """(index of the run a worker was in, whether it was inside a call into the code under test)."""
    idx = None
    in_sut = False
    try:
        with open(job["progress"], "rb") as f:
            raw = f.read(16)
            idx = struct.unpack("<q", raw[:8])[0]
            if len(raw) >= 16:
                in_sut = struct.unpack("<q", raw[8:16])[0] == 1
    except Exception:
        pass
    return idx, in_sut


def _merge(agg, res):
    agg["runs"] += res["runs"]
    agg["covers"].update(res["covers"])
    for k, v in res["faults"].items():
        agg["faults"][k] = agg["faults"].get(k, 0) + v
    for k, v in res["stats"].items():
        agg["stats"][k] = agg["stats"].get(k, 0) + v
    if len(agg["samples"]) < 3:
        agg["samples"].extend(res["samples"][: 3 - len(agg["samples"])])
    agg["digests"].update(res["digests"])
    agg["violations"].extend(res["violations"])
    agg["timed_out"] = agg["timed_out"] or res.get("timed_out", False)


def determinism_check(prop, leg, seed, agg, k):
    """Re-run up to k recorded runs in a fresh interpreter under another
    PYTHONHASHSEED; digests must agree."""
    idxs = sorted(int(i) for i in agg["digests"])
    if not idxs:
        return 0, []
    if len(idxs) > k:
        stepi = len(idxs) / float(k)
        idxs = [idxs[int(j * stepi)] for j in range(k)]
    job = {
        "mode": "digests",
        "prop": prop,
        "leg": leg["name"],
        "seed": seed,
        "indices": idxs,
        "params": leg.get("params", {}),
    }
    rc, res, err = run_job(leg["python"], job, timeout=300, hashseed="12345")
    if res is None or "digests" not in res:
        raise Harness("determinism re-run failed: rc=%s %s %s" % (rc, res, (err or "")[-2000:]))
    mism = []
    for i in idxs:
        if res["digests"][str(i)] != agg["digests"][str(i)]:
            mism.append(i)
    return len(idxs), mism


def shrink_violation(prop, leg, v, budget):
    if v.get("tape") is None:
        return v, False
    job = {
        "mode": "shrink",
        "prop": prop,
        "leg": leg["name"],
        "tape": v["tape"],
        "kind": v["kind"],
        "budget_s": budget,
        "run_timeout": leg.get("run_timeout"),
        "params": leg.get("params", {}),
    }
    rc, res, err = run_job(leg["python"], job, timeout=budget + 180)
    if res is None or not res.get("reproduced"):
        return v, False
    v2 = dict(v)
    v2["tape"] = res["tape"]
    v2["message"] = res["violation"]["message"]
    v2["detail"] = res["violation"]["detail"]
    v2["case"] = res["case"]
    v2["faults"] = res.get("faults", {})
    v2["shrink_tries"] = res["tries"]
    v2["original_tape_len"] = len(v["tape"])
    return v2, True


def replay_file(path):
    """Re-run a replay file in a fresh interpreter. Returns (reproduced, info)."""
    with open(path) as f:
        rec = json.load(f)
    mod = importlib.import_module("sim.props." + rec["property"].lower())
    leg = None
    for l in mod.LEGS:
        if l["name"] == rec["leg"]:
            leg = l
    if leg is None:
        raise Harness("replay names unknown leg %r" % rec["leg"])
    job = {
        "mode": "single",
        "prop": rec["property"],
        "leg": rec["leg"],
        "params": leg.get("params", {}),
        "run_timeout": leg.get("run_timeout") or 120,
    }
    if rec.get("tape") is not None:
        job["tape"] = rec["tape"]
    else:
        job["seed"] = rec["verif_seed"]
        job["index"] = rec["run_index"]
    rc, res, err = run_job(rec["python"], job, timeout=300)
    if rec["kind"] in ("process_crash", "process_hang"):
        died = res is None
        return died, {"returncode": rc, "stderr_tail": (err or "")[-1500:]}
    if res is None:
        raise Harness("replay worker died: rc=%s %s" % (rc, (err or "")[-2000:]))
    if "harness_error" in res:
        raise Harness(res["harness_error"])
    if rec.get("case") and rec["case"].get("program") is not None:
        if res["case"].get("program") != rec["case"].get("program"):
            raise Harness("generator drift: regenerated program differs from the stored text")
    v = res["violation"]
    return (v is not None and v["kind"] == rec["kind"]), {"violation": v}


def load_known():
    p = os.path.join(VERIF, "known_findings.json")
    if not os.path.exists(p):
        return []
    with open(p) as f:
        return json.load(f)


def known_match(mod, entry, v):
    if entry.get("status") != "known" or entry.get("property") != mod.PROPERTY:
        return False
    m = entry.get("match", {})
    if m.get("kind") and m["kind"] != v["kind"]:
        return False
    if m.get("leg") and m["leg"] != v.get("leg"):
        return False
    pred = m.get("predicate")
    if pred:
        fn = getattr(mod, "KNOWN_PREDICATES", {}).get(pred)
        if fn is None or not fn(v):
            return False
    return True


def check(prop, tier, seed, only_legs=None):
    t0 = time.time()
    mod = importlib.import_module("sim.props." + prop.lower())
    out = sys.stdout
    print("check %s tier=%s seed=%d repo=%s" % (prop, tier, seed, interp.repo_dir()))
    legs = [l for l in mod.LEGS if interp.available(l["python"])]
    if only_legs:
        legs = [l for l in legs if l["name"] in only_legs]
    aggs = []
    harness_errors = []
    for leg in legs:
        if int(leg.get(tier, 0)) <= 0:
            continue
        agg = run_leg(prop, leg, tier, seed, out)
        aggs.append((leg, agg))
        harness_errors.extend(agg["harness_errors"])
        _known = load_known()
        nkn = sum(1 for v in agg["violations"] if any(known_match(mod, e, dict(v, leg=leg["name"])) for e in _known))
        print(
            "  leg %-22s py%-5s runs=%d/%d covers=%d violations=%d%s crashes=%d %.1fs%s"
            % (
                leg["name"],
                leg["python"],
                agg["runs"],
                agg["planned"],
                len(agg["covers"]),
                len(agg["violations"]) - nkn,
                (" known-finding-instances=%d" % nkn) if nkn else "",
                agg["crashes"],
                agg["wall_s"],
                " (time-capped)" if agg["timed_out"] else "",
            )
        )
        out.flush()
    # determinism self-check
    det_pairs = 0
    det_mismatch = []
    for leg, agg in aggs:
        if leg.get("no_determinism"):
            continue
        k = leg.get("det_pairs", 6 if tier == "quick" else 30)
        try:
            n, mism = determinism_check(prop, leg, seed, agg, k)
        except Harness as e:
            harness_errors.append(str(e))
            continue
        det_pairs += n
        det_mismatch.extend((leg["name"], i) for i in mism)
    if det_mismatch:
        harness_errors.append("determinism mismatches: %r" % det_mismatch[:10])

    # violations: group, shrink, replay
    known = load_known()
    groups = {}
    others = {}
    for leg, agg in aggs:
        for v in agg["violations"]:
            v["leg"] = leg["name"]
            v["python"] = leg["python"]
            key = (leg["name"], v["kind"])
            cur = groups.get(key)
            if cur is None or (v.get("tape") is not None and len(v["tape"]) < len(cur[1].get("tape") or [0] * 10**6)):
                groups[key] = (leg, v)
            others.setdefault(key, []).append(v)
    n_viol = 0
    n_known = 0
    known_lines = []
    os.makedirs(os.path.join(VERIF, "replays"), exist_ok=True)
    shrink_budget = 40 if tier == "quick" else 120
    reported = 0
    for key in sorted(groups):
        leg, v = groups[key]
        if reported >= 6:
            break
        # a listed finding is recognised by what it is, not by its smallest instance: no need to minimise
        pre = None
        for entry in known:
            if known_match(mod, entry, v):
                pre = entry
                break
        if pre is not None:
            n_known += 1
            line = "KNOWN-FINDING: property=%s %s [%s]" % (prop, pre.get("what", ""), pre.get("id", ""))
            if line not in known_lines:
                known_lines.append(line)
            continue
        # A violation found in a batch worker may owe something to what earlier runs in that worker left behind
        # (state the code under test leaked across runs): such a run does not reproduce alone in a fresh
        # interpreter. Try the other violations of the same (leg, kind), shortest tape first, until one does;
        # only if none replays is the group reported as a harness error.
        rest = [o for o in sorted(others.get(key, []), key=lambda o: len(o.get("tape") or [])) if o is not v]
        step = max(1, len(rest) // 6)
        cands = [v] + rest[::step][:6]
        cand_errors = []
        confirmed = None
        for v in cands:
            v2, shrunk = shrink_violation(prop, leg, v, shrink_budget)
            rec = {
                "property": prop,
                "leg": leg["name"],
                "python": leg["python"],
                "verif_seed": seed,
                "run_index": v2.get("index"),
                "kind": v2["kind"],
                "message": v2["message"],
                "detail": v2.get("detail"),
                "tape": v2.get("tape"),
                "case": v2.get("case"),
                "faults": v2.get("faults"),
                "minimised": shrunk,
                "original_tape_len": v2.get("original_tape_len"),
            }
            matched = None
            for entry in known:
                if known_match(mod, entry, v2):
                    matched = entry
                    break
            if matched is not None:
                n_known += 1
                known_lines.append("KNOWN-FINDING: property=%s %s [%s]" % (prop, matched.get("what", ""), matched.get("id", "")))
                confirmed = "known"
                break
            h = hashlib.sha256(json.dumps(rec, sort_keys=True).encode()).hexdigest()[:12]
            path = os.path.join(VERIF, "replays", "%s-%s-%s.json" % (prop, leg["name"], h))
            with open(path, "w") as f:
                json.dump(rec, f, indent=1, sort_keys=True)
            try:
                ok, info = replay_file(path)
            except Harness as e:
                cand_errors.append("replay of %s failed: %s" % (path, e))
                continue
            if not ok:
                cand_errors.append("unreplayable violation %s (%s): %r" % (path, v2["kind"], info))
                continue
            confirmed = "replayed"
            break
        if confirmed == "known":
            continue
        if confirmed is None:
            harness_errors.extend(cand_errors[:1])
            continue
        n_viol += 1
        reported += 1
        print("  violation kind=%s leg=%s: %s" % (v2["kind"], leg["name"], v2["message"][:300]))
        print("VIOLATION property=%s replay=%s" % (prop, path))
    for line in sorted(set(known_lines)):
        print(line)

    write_evidence(mod, prop, tier, seed, aggs, det_pairs, det_mismatch, n_viol, n_known, harness_errors, time.time() - t0)
    if harness_errors:
        for e in harness_errors[:5]:
            print("HARNESS-ERROR: %s" % e[:3000])
        if n_viol:
            # a violation that did replay in a fresh interpreter stands, whatever else went wrong
            # in this run (the harness errors are still printed and recorded in the evidence)
            return 1
        return 2
    return 1 if n_viol else 0


def write_evidence(mod, prop, tier, seed, aggs, det_pairs, det_mismatch, n_viol, n_known, harness_errors, wall):
    runs = sum(a["runs"] for _, a in aggs)
    covers = set()
    faults = {}
    stats = {}
    samples = []
    legs = []
    for leg, a in aggs:
        covers.update("%s" % c for c in a["covers"])
        for k, v in a["faults"].items():
            faults[k] = faults.get(k, 0) + v
        for k, v in a["stats"].items():
            stats[k] = stats.get(k, 0) + v
        for s in a["samples"][:1]:
            samples.append({"leg": leg["name"], "python": leg["python"], "case": s})
        legs.append(
            {
                "leg": leg["name"],
                "python": leg["python"],
                "runs": a["runs"],
                "planned": a["planned"],
                "time_capped": a["timed_out"],
                "distinct": len(a["covers"]),
                "wall_s": round(a["wall_s"], 2),
                "runs_per_hour": int(a["runs"] / a["wall_s"] * 3600) if a["wall_s"] > 0 else 0,
                "crashes": a["crashes"],
            }
        )
    probes = getattr(mod, "RARE_PROBES", [])
    stuck = [p for p in probes if not stats.get(p) and not faults.get(p)]
    ev = {
        "property_id": prop,
        "tier": tier,
        "seed": seed,
        "level": mod.LEVEL,
        "coverage": {
            "evaluations": runs,
            # one run can reach several of the states that the rule calls distinct (several
            # observations per run): never claim more distinct cases than runs
            "distinct_nontrivial": min(len(covers), runs),
            "distinct_cover_keys": len(covers),
            "rule": mod.RULE,
            "samples": samples if samples else [{"note": "no sample recorded"}],
            "legs": legs,
            "fault_kinds_fired": faults,
            "counters": stats,
            "rare_probes_stuck_at_zero": stuck,
            "determinism_pairs": det_pairs,
            "determinism_mismatches": len(det_mismatch),
            "known_findings_matched": n_known,
            "simulated_time": "not meaningful: nothing in stackscope reads a clock; see runs/steps/observations",
            "real_vs_stub": getattr(mod, "REAL_VS_STUB", None),
            "exhaustive": False,
        },
        "assumptions": list(getattr(mod, "ASSUMPTIONS", [])),
        "wall_s": round(wall, 2),
        "violations": n_viol,
    }
    if harness_errors:
        ev["coverage"]["harness_errors"] = [e[:500] for e in harness_errors[:5]]
    # evidence describes /repo itself; runs against a substituted tree (mutants,
    # seeded changes) must not overwrite it
    evdir = os.path.join(VERIF, "evidence") if interp.repo_dir() == "/repo" else os.path.join(SCRATCH_ROOT, "evidence-other-tree")
    os.makedirs(evdir, exist_ok=True)
    with open(os.path.join(evdir, "%s.json" % prop), "w") as f:
        json.dump(ev, f, indent=1, sort_keys=True)

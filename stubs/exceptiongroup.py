# Minimal stand-in for the `exceptiongroup` backport, used only by the
# CPython 3.9 / 3.10 legs (the package is not installable offline here).
# stackscope only ever calls ExceptionGroup(message, exceptions).


class BaseExceptionGroup(BaseException):
    def __init__(self, message, exceptions):
        BaseException.__init__(self, message, exceptions)
        self.message = message
        self.exceptions = tuple(exceptions)


class ExceptionGroup(BaseExceptionGroup, Exception):
    pass

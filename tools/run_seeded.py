#!/usr/bin/env python3
"""Run the checks against every seeded change under /verif/seeded/<id>/.

For each: copy /repo's package to a scratch dir outside /repo and /verif, apply
patch.diff, confirm the repository's own test suite still passes there, confirm
the demonstration fails there and passes on /repo, run the quick check(s) named
in meta.json with --repo <scratch> (expected: exit 1 with a VIOLATION line),
remove the scratch copy.  Results -> /verif/seeded/results.json

usage: tools/run_seeded.py [id ...] [--skip-tests] [--thorough]
"""
import json
import os
import shutil
import subprocess
import sys
import tempfile
import time

VERIF = os.path.dirname(os.path.dirname(os.path.abspath(__file__)))
SEEDED = os.path.join(VERIF, "seeded")
PY = "/venv/bin/python"
PYS = {
    "3.12": "/venv/bin/python",
    "3.11": "/root/.pyenv/versions/3.11.7/bin/python",
    "3.10": "/root/.pyenv/versions/3.10.13/bin/python",
    "3.9": "/root/.pyenv/versions/3.9.18/bin/python",
}
EXTRA = ":/verif/stubs:/opt/veriftools/wheels/typing_extensions-4.16.0-py3-none-any.whl"


def sh(cmd, env=None, cwd=None, timeout=1800):
    e = dict(os.environ)
    e.update(env or {})
    p = subprocess.run(cmd, shell=True, env=e, cwd=cwd, stdout=subprocess.PIPE, stderr=subprocess.STDOUT, timeout=timeout)
    return p.returncode, p.stdout.decode("utf-8", "replace")


def main(argv):
    skip_tests = "--skip-tests" in argv
    tier = "thorough" if "--thorough" in argv else "quick"
    ids = [a for a in argv if not a.startswith("--")]
    if not ids:
        ids = sorted(d for d in os.listdir(SEEDED) if os.path.isdir(os.path.join(SEEDED, d)))
    resp = os.path.join(SEEDED, "results.json")
    results = {}
    if os.path.exists(resp):
        results = json.load(open(resp))
    for sid in ids:
        d = os.path.join(SEEDED, sid)
        meta = json.load(open(os.path.join(d, "meta.json")))
        if meta.get("superseded"):
            results[sid] = {"property": meta["property"], "superseded": meta["superseded"], "caught": True, "checks": {}}
            print(sid, "superseded")
            continue
        keep_replays = set(os.listdir(os.path.join(VERIF, "replays")))
        scratch = tempfile.mkdtemp(prefix="seeded-")
        res = {"property": meta["property"], "checks": {}}
        try:
            shutil.copytree("/repo/stackscope", os.path.join(scratch, "stackscope"))
            shutil.copy("/repo/pyproject.toml", scratch) if os.path.exists("/repo/pyproject.toml") else None
            rc, out = sh("git apply --unsafe-paths --directory=%s %s" % (scratch, os.path.join(d, "patch.diff")), cwd="/")
            if rc != 0:
                rc, out = sh("patch -p1 < %s" % os.path.join(d, "patch.diff"), cwd=scratch)
            res["applies"] = rc == 0
            if rc != 0:
                res["apply_output"] = out[-1500:]
                results[sid] = res
                continue
            if not skip_tests:
                rc, out = sh("%s -m pytest -q -p no:cacheprovider --timeout=900 stackscope" % PY, env={"PYTHONPATH": scratch}, cwd=scratch)
                res["tests_pass_with_change"] = rc == 0
                res["tests_tail"] = out.strip().splitlines()[-1] if out.strip() else ""
            demo = os.path.join(d, meta.get("demo", "demo.py"))
            py = PYS.get(meta.get("demo_python", "3.12"), PY)
            extra = EXTRA if meta.get("demo_python", "3.12") in ("3.9", "3.10") else ""
            rc1, out1 = sh("%s %s" % (py, demo), env={"PYTHONPATH": scratch + extra}, cwd=d, timeout=600)
            rc0, out0 = sh("%s %s" % (py, demo), env={"PYTHONPATH": "/repo" + extra}, cwd=d, timeout=600)
            res["demo_fails_with_change"] = rc1 != 0
            res["demo_passes_without"] = rc0 == 0
            for chk in meta.get("checks", [meta["property"]]):
                t0 = time.time()
                legs = ""
                if isinstance(chk, dict):
                    legs = " --legs " + chk["legs"] if chk.get("legs") else ""
                    chk = chk["property"]
                rc, out = sh("./check %s --tier %s --repo %s%s" % (chk, tier, scratch, legs), cwd=VERIF, env={"VERIF_REPO": scratch})
                viol = [l for l in out.splitlines() if l.startswith("VIOLATION") or l.strip().startswith("violation kind=")]
                import re as _re

                hits = sum(int(m.group(1)) for m in _re.finditer(r" violations=(\d+)", out)) + sum(int(m.group(1)) for m in _re.finditer(r" crashes=(\d+)", out))
                res["checks"][chk] = {"exit": rc, "caught": rc == 1 and any(l.startswith("VIOLATION") for l in out.splitlines()),
                                      "first": viol[0][:300] if viol else "", "wall_s": round(time.time() - t0, 1), "tier": tier, "hits": hits}
            res["caught"] = any(c["caught"] for c in res["checks"].values())
        finally:
            shutil.rmtree(scratch, ignore_errors=True)
            # replays written while checking a changed tree are not kept
            for f in os.listdir(os.path.join(VERIF, "replays")):
                if f.endswith(".json") and f not in keep_replays:
                    os.remove(os.path.join(VERIF, "replays", f))
        results[sid] = res
        print(sid, json.dumps(res)[:600])
        sys.stdout.flush()
        with open(resp, "w") as f:
            json.dump(results, f, indent=1, sort_keys=True)
    missed = [k for k, v in results.items() if not v.get("caught") and not v.get("superseded")]
    print("caught %d / %d; missed: %s" % (len(results) - len(missed), len(results), missed))


if __name__ == "__main__":
    main(sys.argv[1:])

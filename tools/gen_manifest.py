#!/usr/bin/env python3
"""Regenerate MANIFEST.json from the property modules that exist and the
per-property texts below.  Run from /verif: python3 tools/gen_manifest.py"""
import json
import os
import sys

HERE = os.path.dirname(os.path.dirname(os.path.abspath(__file__)))

TEXT = {
    "C10": dict(
        category="exploration",
        technique="seeded simulation: table-driven hook worlds vs. reference model of the documented frame-hook rules; tape shrinking + replay",
        text="Seeded sampling of hook tables (unwrap results x elaborate scripts, incl. prunes from inserted frames, iterator results, cycles) "
        "run through the real extract() and through an independent flat depth model of the documented rules; any difference in frames, leaf or "
        "error flag, an escaping exception, or a hang (watchdog) is a violation, minimised on its tape and replayed in a fresh interpreter. "
        "Sampling, not enumeration: evidence, not proof.",
        note="Trusted: the reference model (sim/props/c10.py: model) as reading of customizing.rst + the depth comment in extract_iter; "
        "hook results restricted to documented forms; CPython 3.12 and 3.9 only.",
        design_ref="5 (C10)",
    ),
}

TEXT["C01"] = dict(
    category="exploration",
    technique="seeded simulation: generated programs driven by a tape-chosen send/throw/close schedule; self-reporting shadow managers as oracle; 4 interpreters; tape shrinking + replay",
    text="Seeded sampling of generated coroutine/generator/async-generator programs (with/async with x try/loops/if/match x every leave kind, "
    "managers that trap/raise/swallow inside enter/exit, generator-based managers, exit stacks) x driver schedules (send, throw of caught and uncaught "
    "exceptions, close, asend/athrow/aclose). At every suspension the real extract() and contexts_active_in_frame() are compared with the shadow the "
    "managers keep themselves (identity, order, is_async, is_exiting) and any InspectionWarning is a violation. CPython 3.9-3.12. Sampling: evidence, not proof. "
    "Swarm features: recursion, equal-comparing / falsy managers, dedicated productions for with bodies that end in an inner block whose last instruction is a swallowed raise and for try/with/return/finally-raise; "
    "in a quarter of the runs some managers provide their exit method as a staticmethod: their obj cannot be known (reported as KNOWN-FINDING K2), everything else about such frames must still be exact.",
    note="Trusted: placement of the shadow marks (sim/world/rt.py); the generated grammar as approximation of 'every shape the compiler can emit'; "
    "driver never close()s while an @asynccontextmanager generator is between resume and finish (CPython then ends __aexit__ without running the generator: shadow would be stale).",
    design_ref="5 (C01), 2.4",
)
TEXT["C02"] = dict(
    category="exploration",
    technique="seeded simulation: same program world, probes inside bodies / enter / exit / callbacks / callees call extract_since and compare running frames with the shadow",
    text="Same generated programs and schedules as C01 plus sync functions; PROBE points in bodies, in __enter__/__exit__/__aenter__/__aexit__, in generator-based "
    "manager bodies before/after the yield, in ExitStack callbacks and 1-2 plain calls below; every probe extracts the running stack and compares every world "
    "frame on the thread's f_back chain with its shadow (exactness, manager not listed while entering, listed last+exiting+obj while exiting). One known finding (K1) is reported as KNOWN-FINDING. "
    "Hot-loop legs (3.12, 3.11, 3.9): an executing generator / coroutine / async generator goes round a loop 200-3000 times and is extracted from a callee every time "
    "(frames must equal the f_back chain from its own frame; a worker crash is a violation): the interpreter's adaptive counters take every value on the way.",
    note="Trusted: as C01; 'running on the calling thread' is taken as the f_back chain from the probe (CPython does not link frames that delegate a throw() through a non-generator awaitable).",
    design_ref="5 (C02)",
)

TEXT["C08"] = dict(
    category="exploration",
    technique="seeded simulation (program world): snapshot invariant on every reached state; layouts x targets x versions from the generator",
    text="Weak fit, said plainly: start_line/varname are a static decoding of the code object; the simulation contributes the population of states "
    "(which with-items are active where, rebinding of locals for the fallback clause). Every context reported at every suspension/probe is compared with the "
    "generator's record of the with keyword line and the `as` target (ast-equal; supported forms must not be dropped; otherwise None, the target, or a local currently bound to the manager). "
    "The 'every with statement of the standard library' static leg is not done (no run, schedule or fault in it).",
    note="Trusted: the generator's own line bookkeeping and target table; layouts: one line, backslash, parenthesised, multi-line call arguments; 1-3 items.",
    design_ref="5 (C08), 6",
)
TEXT["C09"] = dict(
    category="exploration",
    technique="seeded simulation (program world): generator-based managers and exit stacks populated by tape-drawn registration sequences, observed suspended and while exiting",
    text="At every suspension and probe: a non-exiting @contextmanager/@asynccontextmanager context must carry as inner_stack exactly the manager's generator chain "
    "(incl. yield-from sub-generators) with exact contexts recursively; an exiting one has no inner_stack and its generator frame is in the main series; an ExitStack/AsyncExitStack "
    "context has one child per registered and not-yet-run callback in order, with obj, is_async and a description naming the registration method "
    "({enter_context, push(manager)} and {enter_async_context, push_async_exit(manager)} identified, as contextlib stores them identically). "
    "Swarm features of the program world apply: managers that all compare equal, managers that are falsy, recursion, nested exit stacks, and (C09 legs only) managers whose exit callable is an object without __name__.",
    note="Trusted: the world's registration log (wrappers around the ExitStack methods) and 'started' marks set by the registered callables themselves.",
    design_ref="5 (C09)",
)
TEXT["C16"] = dict(
    category="exploration",
    technique="seeded simulation (program world): origin / extract_outermost contracts checked on every frame of every snapshot, suspended and from inside the running root",
    text="On every Frame of every snapshot (suspended root, running stack, extract(root) from inside the running root): origin is None or weak-referenceable with "
    "extract_outermost(origin).pyframe being that frame; frames of suspended generator-likes the world created carry that object as origin; extract_outermost(x) equals "
    "extract(x).frames[0] field by field and raises (the recorded error if any) when there are no frames.",
    note="Trusted: the world's table of generator-like objects (W.link) and manager generators.",
    design_ref="5 (C16)",
)

TEXT["C20"] = dict(
    category="fault_enumeration",
    technique="seeded simulation + complete single-fault enumeration per suspension: exception injected at every k-th dynamic call of each trickery analysis step; referents-mode relation vs shadow",
    text="Program world observed at every suspension. Off-legs: trickery disabled, reported list vs shadow (ordered sub-sequence of true managers, exiting entry iff exit in progress, "
    "every extra entry is the manager being entered/exited). Fault-legs: for every suspension the fault-free extraction's calls of analyze_with_blocks / inspect_frame / "
    "currently_exiting_context are counted and an exception is injected at every one of them in turn (complete for single faults at that state; states are sampled): exactly an "
    "InspectionWarning, no exception, no Stack.error, same frames, same relation. The set_trickery_enabled thread-interleaving leg is part of the threads simulation.",
    note="Trusted: shadow incl. F.entering; injection through the module attributes stackscope._lowlevel.<step> (how _contexts_active_by_trickery reaches them); C-implemented managers excluded (documented limitation of the referents analysis).",
    design_ref="5 (C20)",
)
TEXT["C06"] = dict(
    category="exploration",
    technique="seeded simulation: observed/unobserved twin runs on one tape; refcount baseline of value-stack-only sentinels; collectability; crash = violation",
    text="Each generated program runs twice on the same tape: unobserved, and observed at a seeded subset of suspensions and probes (1-3 extractions each, suspended root, running stack, "
    "running root; trickery and referents legs). World event logs must be identical; repeated extractions of an unchanged target compare equal; sentinels living only on a value stack return to "
    "their reference-count baseline after results are dropped; managers/generators/frames are as collectable after the observed twin as after the unobserved one; no suspended generator "
    "of stackscope's own is left behind; a worker killed by a signal is a violation with the run's tape as replay.",
    note="Trusted: CPython's own refcounts as the measuring instrument; objects bound to locals are excluded from the refcount clause (frame.f_locals snapshots legitimately hold them).",
    design_ref="5 (C06)",
)

TEXT["C03"] = dict(
    category="exploration",
    technique="seeded simulation (chain world): every suspension point of generated await/yield-from chains; oracle = traceback of an injected BaseException thrown into the same state (replayed per suspension)",
    text="Generated chains of depth 0-6 over every link kind (await coroutine / generator-based coroutine / __await__ returning coroutine-wrapper, generator function or generator; yield from; "
    "async for, __anext__, asend, in-flight athrow and aclose on native async generators, the two-argument anext() builtin on async generators and on custom async iterators (3.10+)), levels optionally inside with blocks, except handlers or finally bodies, ending in a trap or a plain-iterator leaf. "
    "For every suspension point the chain is rebuilt from the same tape, extract(x) is taken, then a Probe(BaseException) is thrown in: Stack.frames must be the traceback's frame objects with equal line numbers; "
    "root, leaf, exhausted targets and with_contexts=False are checked too.",
    note="Trusted: CPython's traceback of the thrown exception; on <=3.11 that traceback is sparse below a frame that is handling another exception, there only an ordered sub-sequence is demanded (counted in evidence).",
    design_ref="5 (C03)",
)

TEXT["C05"] = dict(
    category="fault_enumeration",
    technique="seeded scenarios + complete single-fault enumeration over the dynamic hook-invocation sequence of each scenario, plus sampled fault pairs",
    text="Per run one scenario (suspended generated program with generator-based managers and exit stacks / parked thread / suspended, unstarted or dead greenlet / synthetic items with tuple, list, "
    "iterator and yields_frames unwrappers / arbitrary objects incl. hostile __repr__/__eq__/__class__/__getattr__/__len__/__bool__/__iter__, hooks returning Sequences whose protocol methods raise). The fault-free extraction records every dynamic invocation of the eight hook seams; an Exception (sometimes one that is itself an ExceptionGroup; for frame sources sometimes a failure that persists on every later step) is then injected at every "
    "position in turn and at sampled pairs. extract must return a Stack; each injected exception object must be found in the error of the Stack that was being built (nearest extract_child frame at injection), alone or inside an "
    "ExceptionGroup; frames outward of the failing frame must equal the fault-free ones; the frame whose elaborate_frame failed stays and is un-hidden; str/format/format_flat/as_stdlib_summary must work.",
    note="Trusted: wrappers installed on the module attributes through which extract_iter / the glue reach the hooks; single faults are complete per scenario (scenarios with > 80 invocations: first 40 + 40 sampled), scenarios themselves are sampled.",
    design_ref="5 (C05)",
)

TEXT["C11"] = dict(
    category="exploration",
    technique="seeded simulation: table-driven context hooks over synthetic wrapper chains vs. a model of the documented fill_context loop; three observation paths compared",
    text="Seeded sampling of wrapper chains (length 0-5, six synthetic manager types, optional generator-based head with unwrap_context_generator) x hook tables (unwrap: None/inner/PRUNE/self; "
    "elaborate: description/children/inner_stack/obj replacement). The Context is filled inside extract() of a suspended generator, from inside the manager's exit (exiting lookup path) and by a bare "
    "fill_context(); final obj/hide/inner_stack/children, the exact hook call sequence and the error-after-100 guard are compared with the model; hangs are caught by a watchdog.",
    note="Trusted: the loop model (sim/props/c11.py: model) as reading of customizing.rst and the fill_context docstring; no faults or interleavings are in this property's quantifier.",
    design_ref="5 (C11)",
)
TEXT["C12"] = dict(
    category="exploration",
    technique="seeded simulation: stateful operation sequences (towers, nestings, equal-but-distinct code, customize flag matrix, re-registration) vs. model; IdentityDict vs list-of-pairs model",
    text="Weakest fit of the model checks (no fault, no interleaving): towers over {partial, wraps, method, classmethod, staticmethod}, generated nestings addressed by name path, two functions compiled from one source, "
    "all customize flag combinations x elaborate kinds x direct/decorator form, latest registration wins; each target is really called and inspected from a callee; IdentityDict runs 30 random operations against an identity-keyed list model.",
    note="Trusted: the executing code object is the one the base function records itself; equal-but-distinct code objects built by compiling one source twice.",
    design_ref="5 (C12)",
)

TEXT["C13"] = dict(
    category="exploration",
    technique="seeded simulation: well-nested extract/extract_child/fill_context/extract_outermost trees issued from hooks on 1-4 real threads under a baton scheduler; per-thread option-stack model",
    text="Tape-drawn call trees (depth <= 4, all four option combinations per level, raising hooks, extract_outermost raising through the option push) run on 1-4 real threads; the baton (one runnable thread at a time, "
    "tape decides) is handed over at every hook entry. Every hook reads the options in force through extract_child(for_task=True) (stub vs populated) and Frame.contexts of an inner extract_child and compares with the "
    "model's top of stack for its own thread; after each nested call the outer options must be back; outside any extraction extract_child must refuse; bare fill_context behaves as (True, False).",
    note="Trusted: baton scheduler (real threads parked on semaphores); switches only at hook entries; ExtractOptions.push itself is not pre-empted at bytecode level.",
    design_ref="5 (C13), 2.3",
)
TEXT["C17"] = dict(
    category="exploration",
    technique="seeded simulation: histories over the real sys.modules (fake module names) vs. installation model; 2-4 baton threads entering extract with glue functions yielding mid-way; glue_lock replaced by a baton-aware lock",
    text="Histories of add / remove / re-add / replace-in-place / late built-in registration / extract over fake modules with module glue, pending built-in glue, both, neither or raising glue; after every extract each glue function's "
    "call count must equal the model's (exactly once, module-provided beats built-in, never both, one RuntimeWarning per raising glue, later glue still runs). Threaded legs: several threads enter extract at once while glue functions hand "
    "the baton over mid-way; an extract may not return before every glue due at its start has finished.",
    note="Trusted: the installation model; SimLock has the mutual-exclusion semantics of threading.Lock; no bytecode-level pre-emption inside add_glue_as_needed (see DESIGN.md section 2.3).",
    design_ref="5 (C17)",
)

TEXT["C07"] = dict(
    category="exploration",
    technique="deterministic thread simulation: real threads parked in C calls and stepped by a controller; instruction-level instrumentation (sys.monitoring / settrace) of stackscope's own frame-reading code turns every legal GIL-release boundary into a tape-decided hand-over; crash = violation",
    text="Blocked legs (3.9-3.12): after every step of 1-3 parked threads extract(thread) must equal the thread's f_back chain with exact contexts; unstarted/finished threads give no frames. "
    "Racing legs (3.12, 3.11, 3.10, 3.9): while extract(thread), extract_since(frame of another thread) or lowlevel.inspect_frame run, the tape lets the inspected thread advance 1-4 yield points at any after-CALL / backward-jump / RESUME boundary "
    "of inspect_frame, _parse_exception_table, unwrap_thread, unwrap_stackslice/try_from and the context analysis (leave a with, return, raise out of the frame, call deeper, exit the thread). The worker must not die on a signal, extract must not raise, "
    "reported frames must belong to the inspected thread, and an accepted inspect_frame snapshot must name exactly the managers entered at one of the positions occupied during the call. "
    "Every value-stack address that inspect_frame turns into an object reference is judged when it happens: on 3.9/3.10 (no stack top recorded for a running frame) against an exact ownership log of the inspected frame's value stack, "
    "on 3.11/3.12 against the slot range the frame owns at that moment (current InterpreterFrame, owner, stack top or static depth); a dereference of an address the frame does not own is a violation even if the process survives it.",
    note="Trusted: assumption A-GIL (DESIGN.md 2.3); switches inside a blocking C call are modelled as switches right after the call; targets only stop at generated yield points; no uncontrolled switch-interval stress; on 3.9/3.10 the boundaries used are a sound subset of the interpreter's real switch points; the static stack-depth computation (sim/world/stackdepth.py) is trusted for the ownership oracle.",
    design_ref="5 (C07), 2.3",
)

TEXT["C15"] = dict(
    category="exploration",
    technique="seeded simulation: director-driven greenlet trees (lifecycle history on the tape), shadow call logs as oracle; foreign-thread greenlet parked on a lock; greenback alternation under seeded Trio",
    text="A tape-chosen history of spawn / start / switch / finish / throw over up to 5 greenlets with parent chains up to depth 4 and call depth 0-3 (incl. running generators mid-stack); at tape-chosen moments the current greenlet extracts any greenlet: "
    "suspended -> exactly its shadow call log whoever asks (outsider, ancestor, sibling, descendant), current -> exactly the f_back chain of the caller, unstarted/dead -> nothing, running in another thread -> error and no frames. "
    "Greenback legs: portal from ensure_portal / with_portal_run / with_portal_run_tree / with_portal_run_sync, each level crossing into async code through await_ / autoawait / async_context / async_iter, alternation depth 0-3 under seeded Trio, inspected from outside and inside (bridging frames hidden, every user frame once, in order).",
    note="Trusted: greenlets switch only from their loop frame; CPython 3.12 only (greenlet/greenback are not available for the other interpreters).",
    design_ref="5 (C15)",
)
TEXT["C04"] = dict(
    category="exploration",
    technique="seeded simulation (greenlet world) used as a population of running stacks; snapshot invariant: every drawn (outer, inner, limit) slice equals the documented sub-list of interpreter ground truth",
    text="Weak fit, said plainly: slicing is a pure function of (stack, outer, inner, limit); no fault or interleaving decides anything. Claimed as an invariant over the states the greenlet simulation reaches (stacks split over 0-4 nested greenlets, dead parents, "
    "running generators) plus plain thread stacks on 3.9: 8 tape-drawn triples per probe through StackSlice / extract_since / extract_until (int and frame limits) and off-stack anchors.",
    note="Trusted: ground truth = f_back chain of the calling frame continued at each greenlet parent's gr_frame; sampling of the (anchor, limit, nesting) cells, not their cross product.",
    design_ref="5 (C04), 6",
)

TEXT["C14"] = dict(
    category="exploration",
    technique="seeded simulation: generated Trio programs under a real trio.run whose batch order is seeded from the tape; worker threads parked on locks; parallel walk of Trio's own task tree and the extracted tree",
    text="Generated task trees (depth <= 3, fan-out <= 3, 0-2 nested nurseries per task, bodies ending in plain statements / try-except / try-finally / conditional return / cancelled scope so tasks block in the body or in __aexit__; "
    "to_thread.run_sync <-> from_thread.run ping-pong of depth 0-3 with abandon_on_cancel and an explicit shared thread_name drawn per call, a C callable as sync_fn, threads that Trio did not start entering with from_thread.run(trio_token=...), nursery.start() with children that have / have not reported in, nurseries entered through AsyncExitStack or inside @asynccontextmanager) run under real Trio with seeded scheduling; at quiescence a controller task extracts the root task recursively and compares with task.child_nurseries / nursery.child_tasks "
    "(once each, nesting order, identities, exiting flag, thread frames in place of the wait and back into the task), with no error and no InspectionWarning; without recursion children must be stubs.",
    note="Trusted: trio's _r / _ALLOW_DETERMINISTIC_SCHEDULING seam; the world's record of where each task blocks; 3.12 only.",
    design_ref="5 (C14)",
)

TEXT["C18"] = dict(
    category="exploration",
    technique="seeded simulation (program world) as a population of real Stacks + tape-drawn perturbations + linecache faults; independent box-drawing reader as oracle",
    text="Weak fit, said plainly: formatting is a pure function of a Stack; the simulation only supplies the population (inner stacks, exit-stack children, exiting contexts, running stacks) and the one I/O fault seam (source lines missing / truncated / garbled in linecache). "
    "Every Stack and a perturbed copy (hidden flags, dropped metadata, stub / populated / unidentified child task stacks, leaf, multi-line error) is rendered under all 8 option combinations; an independent prefix reader must recover the same nesting; "
    "line termination, str()==join, ascii_only = marker-for-marker translation, hidden iff show_hidden_frames, show_contexts=False = frame series.",
    note="Trusted: the reader's grammar (two-column prefixes); reprs/source single-line ASCII without leading markers; child kind not compared (lexically identical shapes).",
    design_ref="5 (C18), 6",
)
TEXT["C19"] = dict(
    category="exploration",
    technique="seeded simulation (program world) as a population of real Stacks + perturbations + linecache faults; reference projection written from the docstrings as oracle",
    text="Weak fit (same population as C18): for all combinations of show_contexts / show_hidden_frames / capture_locals the summary must equal the reference projection, survive pickling unchanged and reference no frame; "
    "format_flat must be header + StackSummary.format() + leaf + error lines.",
    note="Trusted: the projection in sim/world/fmt.py (project_stack) as reading of the docstrings.",
    design_ref="5 (C19), 6",
)

PENDING_REASON = "check not built yet in this round (work in progress; see DESIGN.md section 5 for the planned simulation)"

ALL = ["C%02d" % i for i in range(1, 21)]


def main():
    checks = []
    na = []
    for pid in ALL:
        modp = os.path.join(HERE, "sim", "props", pid.lower() + ".py")
        if os.path.exists(modp) and pid in TEXT:
            t = TEXT[pid]
            checks.append(
                {
                    "property_id": pid,
                    "quick_cmd": "./check %s --tier quick" % pid,
                    "thorough_cmd": "./check %s --tier thorough" % pid,
                    "evidence_file": "/verif/evidence/%s.json" % pid,
                    "replay_cmd_template": "./check --replay {path}",
                    "engine": "sim",
                    "level_claimed": {"category": t["category"], "text": t["text"], "design_ref": t["design_ref"]},
                    "level_note": t["note"],
                    "technique": t["technique"],
                }
            )
        else:
            na.append({"property_id": pid, "reason": TEXT.get(pid, {}).get("na_reason", PENDING_REASON)})
    man = {
        "version": 1,
        "setup_cmd": "./setup.sh",
        "hooks": {
            "guard": "STACKSCOPE_VERIF",
            "enable": "no source hooks are needed: every seam (hook registries, sys.modules, gc, linecache, thread batons, sys.monitoring on stackscope's own code objects) is reachable from outside; checks export STACKSCOPE_VERIF=1 anyway and import stackscope from /repo's working tree via PYTHONPATH",
            "baseline_off_cmd": "cd /repo && /venv/bin/python -m pytest -ra -q -p no:cacheprovider --timeout=900 --continue-on-collection-errors",
            "source_commits": [],
            "add_only": True,
        },
        "engines": [
            {
                "name": "sim",
                "path": "/verif/sim",
                "serves_properties": [c["property_id"] for c in checks],
                "kind_free_text": "deterministic simulation with fault injection: one seeded choice tape per run decides the generated world, "
                "its schedule and its faults; real stackscope observes; shadow/reference models are the oracles; tape shrinking; replay files",
            }
        ],
        "checks": checks,
        "not_applicable": na,
        "notes": "Exit codes of every check: 0 held, 1 violation (VIOLATION line + replay file), 2 harness error. "
        "VERIF_SEED selects the run seeds; VERIF_SCALE scales run counts; VERIF_REPO substitutes another tree.",
    }
    with open(os.path.join(HERE, "MANIFEST.json"), "w") as f:
        json.dump(man, f, indent=1)
    print("claimed:", [c["property_id"] for c in checks])


if __name__ == "__main__":
    sys.path.insert(0, HERE)
    main()

#!/bin/sh
# usage: tools/try_mutant.sh '<python expr editing variable s of file F>' F PROP [extra check args]
# makes a scratch copy of /repo outside /repo and /verif, edits one file, runs the quick check against it, removes the copy
EDIT="$1"; FILE="$2"; PROP="$3"; shift 3
D=$(mktemp -d /tmp/mut-XXXXXX)
cp -r /repo/stackscope "$D/stackscope"
python3 - "$D/$FILE" <<PY
import sys
p=sys.argv[1]; s=open(p).read(); o=s
$EDIT
assert s!=o, "mutation did not change the file"
open(p,'w').write(s)
PY
[ $? -eq 0 ] || { rm -rf "$D"; exit 3; }
cd /verif && VERIF_REPO="$D" ./check "$PROP" --tier quick "$@" 2>&1 | grep -v "^  leg" | cut -c1-400 | head -8
echo "exit=$?"
rm -rf "$D"

#!/bin/sh
# Run every property's check on /repo itself (rewrites /verif/evidence/*.json). usage: tools/run_all.sh [quick|thorough]
cd "$(dirname "$0")/.." || exit 2
TIER="${1:-quick}"
rc=0
for p in C01 C02 C03 C04 C05 C06 C07 C08 C09 C10 C11 C12 C13 C14 C15 C16 C17 C18 C19 C20; do
  ./check $p --tier "$TIER" > .scratch/all-$p.txt 2>&1
  e=$?
  echo "$p exit $e $(grep -c '^  leg' .scratch/all-$p.txt) legs $(grep -h 'KNOWN-FINDING\|VIOLATION\|HARNESS' .scratch/all-$p.txt | cut -c1-120 | head -2)"
  [ $e -gt $rc ] && rc=$e
done
exit $rc

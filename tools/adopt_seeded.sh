#!/bin/sh
# usage: tools/adopt_seeded.sh <worktree> <seeded-id> <PROPERTY> [demo_python]
# copies SEEDED/{patch.diff,demo.py,notes.md} into /verif/seeded/<id>/, writes meta.json, removes the scratch worktree
WT="$1"; ID="$2"; PROP="$3"; DPY="${4:-3.12}"
D=/verif/seeded/$ID
mkdir -p "$D"
cp "$WT/SEEDED/patch.diff" "$WT/SEEDED/demo.py" "$D/" || exit 1
[ -f "$WT/SEEDED/notes.md" ] && cp "$WT/SEEDED/notes.md" "$D/notes.md"
cat > "$D/meta.json" <<M
{
 "id": "$ID",
 "property": "$PROP",
 "checks": ["$PROP"],
 "demo": "demo.py",
 "demo_python": "$DPY",
 "origin": "written by a fresh sub-agent given only the property text and a scratch worktree of /repo (nothing from /verif)",
 "needs": "see notes.md",
 "ran": "tools/run_seeded.py $ID (scratch copy of /repo/stackscope + patch; repository tests; demo with and without; ./check $PROP --repo <scratch>); outcome in seeded/results.json"
}
M
git -C /repo worktree remove --force "$WT" && git -C /repo worktree prune && echo "removed $WT"

#!/usr/bin/env python3
"""Determinism self-test at scale: for every leg of every property, the first N
run indices are executed twice - 16 worker processes under PYTHONHASHSEED=0, and
3 worker processes under PYTHONHASHSEED=777 (other process histories, other
stripe assignment, other hash order) - for several VERIF_SEED values; every
run's event-log digest must agree.  Results -> selftest/determinism.json

usage: selftest/determinism.py [N] [prop ...]      (run with /venv/bin/python, cwd=/verif)
"""
import importlib
import json
import os
import sys

VERIF = os.path.dirname(os.path.dirname(os.path.abspath(__file__)))
sys.path.insert(0, VERIF)
sys.path.insert(0, os.environ.get("VERIF_REPO", "/repo"))

from sim import runner, interp  # noqa: E402


def main(argv):
    n = int(argv[0]) if argv and argv[0].isdigit() else 150
    props = [a.upper() for a in argv if not a.isdigit()] or ["C%02d" % i for i in range(1, 21)]
    out = {}
    bad = 0
    for prop in props:
        mod = importlib.import_module("sim.props." + prop.lower())
        only = os.environ.get("VERIF_DET_LEGS")
        for leg in mod.LEGS:
            if only and leg["name"] not in only.split(","):
                continue
            if not interp.available(leg["python"]):
                continue
            for seed in (0, 12345):
                digs = []
                for (workers, hs) in ((16, "0"), (3, "777")):
                    l2 = dict(leg)
                    l2["quick"] = n
                    l2["quick_s"] = 600
                    l2["workers"] = workers
                    l2["min_chunk"] = 1
                    l2["digest_every"] = 1
                    l2["hashseed"] = hs
                    agg = runner.run_leg(prop, l2, "quick", seed, sys.stdout)
                    if agg["harness_errors"]:
                        print("HARNESS", prop, leg["name"], agg["harness_errors"][:1])
                    digs.append(agg["digests"])
                a, b = digs
                mism = sorted(int(k) for k in a if b.get(k) != a[k])
                key = "%s/%s/seed%d" % (prop, leg["name"], seed)
                out[key] = {"runs_compared": len(a), "mismatches": mism[:20]}
                bad += len(mism)
                print(key, len(a), "mismatches:", mism[:10])
                sys.stdout.flush()
    with open(os.path.join(VERIF, "selftest", "determinism.json"), "w") as f:
        json.dump(out, f, indent=1, sort_keys=True)
    print("total mismatches:", bad)
    return 1 if bad else 0


if __name__ == "__main__":
    sys.exit(main(sys.argv[1:]))

#!/usr/bin/env python3
"""Sensitivity self-test: small edits of stackscope, each tagged with the
property it should break; the tagged quick check must exit 1 with a VIOLATION
that replays (the runner already verifies the replay).  Neutral edits must
leave the checks at exit 0.

usage: selftest/mutants.py [id ...] [--no-tests]     results -> selftest/mutants.json
Scratch copies live under $TMPDIR (outside /repo and /verif) and are removed.
"""
import json
import os
import shutil
import subprocess
import sys
import tempfile
import time

VERIF = os.path.dirname(os.path.dirname(os.path.abspath(__file__)))

# (id, file, old, new, property, legs or None, kind)
M = []


def m(id, file, old, new, prop, legs=None, kind="mutant"):
    M.append(dict(id=id, file=file, old=old, new=new, prop=prop, legs=legs, kind=kind))


LL = "stackscope/_lowlevel.py"
EX = "stackscope/_extract.py"
GL = "stackscope/_glue.py"
TY = "stackscope/_types.py"
CD = "stackscope/_code_dispatch.py"
CU = "stackscope/_customization.py"
L311 = "stackscope/_lowlevel_cpython_311.py"
L310 = "stackscope/_lowlevel_cpython_310.py"

# ---- C01 / C02: exit-site recognition ------------------------------------
m("c01-level-off-by-one", LL, "obj=getattr(frame_details.stack[block.level - 1], \"__self__\", None),", "obj=getattr(frame_details.stack[block.level - 2], \"__self__\", None),", "C01", "prog312,prog39")
m("c01-no-cleanup-throw-skip", LL, '                    and insns[idx + skip_insns].opname == "CLEANUP_THROW"', '                    and insns[idx + skip_insns].opname == "CLEANUP_THROW_"', "C01", "prog312")
m("c01-handler-walk", L311, "        idx = bisect.bisect_left(handlers, (current + 1, 0))", "        idx = bisect.bisect_left(handlers, (current, 0))", "C01", "prog312,prog311")
m("c01-f2-revert-jump-source", LL, "                ) and offs < insn.argval <= first_load:", "                ) and False:", "C01", "prog312,prog311")
m("c01-f2-revert-chain", LL, "            current = target\n        warnings.warn(", "            break\n        warnings.warn(", "C01", "prog312,prog311")
m("c01-rot-two-310", LL, '        if offs and code[offs] == op["ROT_TWO"]:\n            offs -= 2\n    else:', '        if False:\n            offs -= 2\n    else:', "C01", "prog310,prog39")
m("c01-exception-table-depth", LL, "                depth = dl >> 1", "                depth = (dl >> 1) + 1", "C01", "prog312,prog311")
m("c02-f1-revert", LL, '        while code[offs] == op["CACHE"] and offs >= 2:\n            offs -= 2\n        if code[offs] == op["YIELD_VALUE"] and offs >= 2:', '        if code[offs] == op["YIELD_VALUE"] and offs >= 2:', "C02", "probe312")
m("c02-no-next-inner-obj", LL, "    if ret and ret[-1].is_exiting and next_inner is not None:", "    if ret and ret[-1].is_exiting and next_inner is not None and False:", "C02", "probe312,probe39")
m("c02-running-stack-trim", L311, "                stack_top_offset = stack_start_offset + wordsize * handler_depth", "                stack_top_offset = stack_start_offset + wordsize * max(0, handler_depth - 1)", "C02", "probe312,probe311")
m("c02-310-validity-limit", L310, "            stack_validity_limit = max(blk.level for blk in details.blocks)", "            stack_validity_limit = min(blk.level for blk in details.blocks)", "C02", "probe310,probe39")
# ---- C03 -------------------------------------------------------------------
m("c03-coro-tuple-order", GL, "        return (coro.cr_frame, coro.cr_await)", "        return (coro.cr_await, coro.cr_frame)", "C03", "chain312")
m("c03-agen-await-refinement", GL, "        if agen.ag_running and (\n            agen.ag_frame.f_back is not None or agen.ag_await is None\n        ):", "        if agen.ag_running:", "C03", "chain312,chain39")
m("c03-lineno-lazy", TY, "        if self.lineno == -1:\n            self.lineno = self.pyframe.f_lineno", "        if self.lineno == -1:\n            self.lineno = self.pyframe.f_code.co_firstlineno", "C03", "chain312")
m("c03-asend-first-referent", GL, '            if hasattr(referent, "ag_frame"):  # pragma: no branch\n                return referent', '            return referent', "C03", "chain312")
# ---- C04 -------------------------------------------------------------------
m("c04-from-idx", GL, "                from_idx = this_thread_frames.index(inner_frame) - 1", "                from_idx = this_thread_frames.index(inner_frame)", "C04", "slice312")
m("c04-limit-branches", GL, "        if inner_frame is None and outer_frame is not None:\n            del frames[spec.limit :]", "        if inner_frame is not None and outer_frame is not None:\n            del frames[spec.limit :]", "C04", "slice312,slice39")
m("c04-f27-revert", GL, "        for ident, thread_inner_frame in sys._current_frames().items():\n            if ident != threading.get_ident():\n                frames = try_from(thread_inner_frame)", "        for ident, inner_frame in sys._current_frames().items():\n            if ident != threading.get_ident():\n                frames = try_from(inner_frame)", "C04", "other312,other310")
m("c04-other-thread-limit-keeps-inner", GL, "        if inner_frame is None and outer_frame is not None:\n            del frames[spec.limit :]", "        if inner_frame is None and outer_frame is not None and frames[-1] is get_true_caller():\n            del frames[spec.limit :]", "C04", "other312,other310")
m("c04-dead-parent-revert", GL, "        and greenlet_getcurrent().parent is not None\n", "        and greenlet_getcurrent().parent\n", "C04", "slice312")
# ---- C05 -------------------------------------------------------------------
m("c05-no-try-elaborate-frame", EX, "        except Exception as ex:\n            save_errors.append(ex)\n            frame.hide = False\n            replacement = PRUNE", "        except ZeroDivisionError as ex:\n            save_errors.append(ex)\n            frame.hide = False\n            replacement = PRUNE", "C05", "faults312")
m("c05-no-try-fill-context", EX, "                    try:\n                        fill_context(context)\n                    except Exception as ex:\n                        save_errors.append(ex)", "                    fill_context(context)", "C05", "faults312")
m("c05-error-dropped", EX, "            except Exception as ex:\n                unwrapped = None\n                save_errors.append(ex)", "            except Exception as ex:\n                unwrapped = None", "C05", "faults312")
m("c05-always-first-error", EX, "    if len(errors) > 1:\n        error = ExceptionGroup(", "    if len(errors) > 100:\n        error = ExceptionGroup(", "C05", "faults312")
m("c05-f9-revert", GL, "            children.append(child_context)\n            _extract.fill_context(child_context)", "            _extract.fill_context(child_context)\n            children.append(child_context)", "C05", "faults312")
m("c05-frameiter-errors", EX, "                    except Exception as ex:\n                        save_errors.append(ex)\n                        break", "                    except Exception as ex:\n                        break", "C05", "faults312")
# ---- C06 -------------------------------------------------------------------
m("c06-leak-details", LL, "    frame_details = inspect_frame(frame)\n", "    frame_details = inspect_frame(frame)\n    _leak.append(frame_details)\n", "C06", "twin312")
m("c06-agen-left-open", GL, "        agen.aclose().send(None)  # type: ignore", "        pass", "C06", "twin312")
m("c06-frame-locals-mutated", TY, "        if self.lineno == -1:\n            self.lineno = self.pyframe.f_lineno", "        if self.lineno == -1:\n            self.lineno = self.pyframe.f_lineno\n        try:\n            next(self.origin)\n        except Exception:\n            pass", "C06", "twin312")
# ---- C07 -------------------------------------------------------------------
m("c07-no-slot-recheck", L311, "                    assert (\n                        frame.f_lasti == lasti_before\n                        and frame_raw_ptr.f_frame == iframe_addr\n                    )\n\n                    try:\n                        # Read the PyObject*", "                    try:\n                        # Read the PyObject*", "C07", "racing312,racing311")
m("c07-f11-revert-pointer-guard", L311, "                    assert (\n                        frame.f_lasti == lasti_before\n                        and frame_raw_ptr.f_frame == iframe_addr\n                    )\n\n                    try:\n                        # Read the PyObject*", "                    assert frame.f_lasti == lasti_before\n\n                    try:\n                        # Read the PyObject*", "C07", "racing312,racing311")
m("c07-retry-break", L311, "        except _ConcurrentModification:\n            continue", "        except _ConcurrentModification:\n            break", "C07", "racing312,racing311")
m("c07-f13-revert", L311, "                    if again is not obj:\n                        raise _ConcurrentModification", "                    pass", "C07", "racing312,racing311")
m("c07-f10-revert", L311, "    if frame_owner == FRAME_OWNED_BY_FRAME_OBJECT:\n        # This frame has finished", "    if False:\n        # This frame has finished", "C07", "racing312,racing311")
m("c07-read-owned-by-frame-object", L311, "            if frame_owner != FRAME_OWNED_BY_FRAME_OBJECT:\n                for i in range(stack_len):", "            if True:\n                for i in range(stack_len):", "C07", "racing312,racing311")
m("c07-f15-revert-cast-elsewhere", L310, "        if not _is_on_this_thread(frame):\n            details.stack = list(stack)\n            return details, False", "        if False:\n            details.stack = list(stack)\n            return details, False", "C07", "racing310,racing39")
m("c07-f15-no-agreement-check", L310, "        if first == details and addresses.issuperset(details.stack):", "        if addresses.issuperset(details.stack):", "C07", "racing310,racing39")
m("c07-f15-no-superset-check", L310, "        if first == details and addresses.issuperset(details.stack):", "        if first == details:", "C07", "racing310,racing39,blocked310")
m("c07-f15-stacktop-read-twice", L310, "    # references the hard way.\n    if stacktop == 0:", "    # references the hard way.\n    if frame_raw.f_stacktop == 0:", "C07", "racing310,racing39")
m("c07-f15-no-resume-check", L310, "        assert frame_raw.f_stacktop == stacktop and frame.f_lasti == lasti", "        pass", "C07", "racing310,racing39")
m("c07-f15-lookup-before-first-read-only", L310, "        first, _ = _inspect_frame(frame)\n        details, is_resolved = _inspect_frame(frame)", "        first, is_resolved = details, False", "C07", "racing310,racing39")
m("c14-f16-revert", GL, "                if task.context is message.context or (\n                    task_frame is not None\n                    and task_frame.f_locals.get(\"self\") is message\n                ):", "                if task.context is message.context:", "C14", "")
m("c14-f17-revert", GL, "            trio_token = next_inner.pyframe.f_locals.get(\"trio_token\")\n", "            return ()\n", "C14", "")
m("c05-f18-revert", EX, "        except Exception as ex:\n            # extract_iter() saves the exceptions it anticipates", "        except ZeroDivisionError as ex:\n            # extract_iter() saves the exceptions it anticipates", "C05", "faults312")
m("c15-f19-revert", GL, "    if hasattr(greenback._impl, \"_greenback_shim_sync\"):  # pragma: no branch", "    if False:", "C15", "gback312")
m("c03-f20-revert", GL, "        @unwrap_stackitem.register(anext_awaitable_type)\n", "", "C03", "chain312,chain310")
m("c14-f21-revert", GL, "                or current.f_locals.get(\"task_register\") is task_register", "                or True", "C14", "")
m("c09-f22-revert", GL, "                obj=manager if manager is not None else callback,", "                obj=manager or callback,", "C09", "w312,w39")
m("c01-f23-revert", LL, "            obj=getattr(frame_details.stack[block.level - 1], \"__self__\", None),", "            obj=frame_details.stack[block.level - 1].__self__,", "C01", "prog312,prog39")
m("c09-f24-revert", GL, "                    or getattr(callback.__func__, \"__name__\", None)\n                    in (\"__exit__\", \"__aexit__\")", "                    or callback.__func__.__name__ in (\"__exit__\", \"__aexit__\")", "C09", "w312,w39")
m("c07-f25-revert", L311, "            if lasti_during != lasti_before:\n                raise _ConcurrentModification\n", "", "C07", "racing312,racing311")
m("c02-f26-revert", GL, "            agen.ag_frame.f_back is not None or agen.ag_await is None", "            agen.ag_await is None", "C02", "hotloop312,hotloop311")
m("c07-thread-alive-check", GL, "        if inner_frame is None or not thread.is_alive() or not was_alive:", "        if inner_frame is None:", "C07", "blocked312,racing312")
# ---- C08 -------------------------------------------------------------------
m("c08-async-skip-insns", LL, "            skip_insns = 7 if is_async else 1", "            skip_insns = 6 if is_async else 1", "C08", "w312,w311")
m("c08-line-tracking", LL, "        if insn.starts_line is not None:\n            current_line = insn.starts_line", "        if insn.starts_line is not None and current_line == -1:\n            current_line = insn.starts_line", "C08", "w312,w39")
m("c08-store-deref", LL, '                "STORE_GLOBAL", "STORE_FAST", "STORE_NAME", "STORE_DEREF",', '                "STORE_GLOBAL", "STORE_FAST", "STORE_NAME",', "C08", "w312,w39")
m("c08-one-tuple", LL, '            return "({},)".format(values[0])', '            return "({})".format(values[0])', "C08", "w312")
m("c08-nop-skip", LL, '            if insns[idx + skip_insns].opname == "NOP":', '            if insns[idx + skip_insns].opname == "NOP_":', "C08", "w311")
# ---- C09 -------------------------------------------------------------------
m("c09-callback-as-push", GL, '                method = "callback" if is_sync else "push_async_callback"', '                method = "push" if is_sync else "push_async_callback"', "C09", "w312")
m("c09-async-flag", GL, "                is_async=not is_sync,\n                varname=f\"{stackname}[{idx}]\",", "                is_async=is_sync,\n                varname=f\"{stackname}[{idx}]\",", "C09", "w312")
m("c09-children-reversed", GL, "        for idx, (is_sync, callback) in enumerate(callbacks):", "        for idx, (is_sync, callback) in enumerate(reversed(callbacks)):", "C09", "w312")
m("c09-descend-when-exiting", GL, "        if not context.is_exiting:\n            context.inner_stack = _extract.extract_child(mgr.gen, for_task=False)\n        if hasattr(mgr, \"func\"):", "        if True:\n            context.inner_stack = _extract.extract_child(mgr.gen, for_task=False)\n        if hasattr(mgr, \"func\"):", "C09", "w312")
# ---- C10 -------------------------------------------------------------------
m("c10-depth-strict", EX, "            while to_unwrap and to_unwrap[0][2] >= depth:", "            while to_unwrap and to_unwrap[0][2] > depth:", "C10", "model312")
m("c10-child-depth", EX, "                    to_unwrap.appendleft((better_origin(item, origin), item, depth + 1))", "                    to_unwrap.appendleft((better_origin(item, origin), item, depth))", "C10", "model312")
m("c10-identity-vs-equality", EX, "        if not items or items[-1] is not next_inner:", "        if not items or items[-1] != next_inner:", "C10", "model312")
m("c10-no-guard", EX, "                if loops_since_progress > 100:", "                if loops_since_progress > 10**9:", "C10", "model312")
m("c10-f7-revert", EX, "                to_unwrap.appendleft((next_origin, next_item, min(next_depth, depth)))", "                to_unwrap.appendleft((next_origin, next_item, depth))", "C10", "model312")
# ---- C11 -------------------------------------------------------------------
m("c11-no-inner-stack-reset", EX, "        context.inner_stack = None\n        context.children = ()", "        context.children = ()", "C11", "ctx312")
m("c11-prune-is-none", EX, "        if inner_mgr == PRUNE:\n            context.hide = True\n            break", "        if inner_mgr == PRUNE:\n            break", "C11", "ctx312")
m("c11-guard-off", EX, "    for _ in range(100):\n        if TYPE_CHECKING:", "    for _ in range(10**9):\n        if TYPE_CHECKING:", "C11", "ctx312")
m("c11-exiting-path-lookup", GL, "                try:\n                    frame = _extract.extract_outermost(mgr.gen)\n                except RuntimeError:  # no frames\n                    pass\n                else:\n                    return unwrap_context_generator(frame, context)", "                pass", "C11", "ctx312")
# ---- C12 -------------------------------------------------------------------
m("c12-registry-plain-dict", CD, "        registry = IdentityDict[types.CodeType, Callable[Concatenate[T, P], R]]()", "        registry = dict()", "C12", "reg312")
m("c12-startswith", CD, "            if isinstance(const, types.CodeType) and const.co_name == name:", "            if isinstance(const, types.CodeType) and const.co_name.startswith(name):", "C12", "reg312")
m("c12-f3-revert", CU, "        if hide_line:\n            frame.hide_line = True\n", "", "C12", "reg312")
m("c12-decorator-drops-prune", CU, "            hide_line=hide_line,\n            prune=prune,", "            hide_line=hide_line,", "C12", "reg312")
# ---- C13 -------------------------------------------------------------------
m("c13-not-thread-local", EX, "class ExtractOptions(threading.local):", "class ExtractOptions(object):", "C13", "opts312")
m("c13-no-finally", EX, "        try:\n            yield\n        finally:\n            (self.with_contexts, self.recurse_child_tasks) = prev", "        yield\n        (self.with_contexts, self.recurse_child_tasks) = prev", "C13", "opts312")
m("c13-stub-condition", EX, "    if for_task and not current_options.recurse_child_tasks:", "    if for_task:", "C13", "opts312")
m("c13-fill-context-no-push", EX, "        with current_options.push(with_contexts=True, recurse_child_tasks=False):\n            fill_context(context)\n        return", "        current_options.with_contexts = True\n        current_options.recurse_child_tasks = False", "C13", "opts312")
# ---- C14 -------------------------------------------------------------------
m("c14-not-for-task", GL, "            _extract.extract_child(child_task, for_task=True)", "            _extract.extract_child(child_task, for_task=False)", "C14", "trio312")
m("c14-drop-next-inner", GL, "        return (thread_stack, next_inner)", "        return thread_stack", "C14", "trio312")
m("c14-traps-visible", GL, "            customize(getattr(lowlevel, trap), hide=True, prune=True)", "            customize(getattr(lowlevel, trap), hide=False, prune=True)", "C14", "trio312")
# ---- C15 -------------------------------------------------------------------
m("c15-f8-revert", GL, "            outer_frame = inner_frame\n            while outer_frame.f_back is not None:\n                outer_frame = outer_frame.f_back\n        return StackSlice", "            outer_frame = None\n        return StackSlice", "C15", "glet312")
m("c15-dead-check", GL, "            if not glet:  # dead or not started", "            if glet.dead:  # dead or not started", "C15", "glet312")
m("c15-parent-stop", GL, "                    outer_frame.f_back is not glet.parent.gr_frame\n                    and outer_frame.f_back is not None", "                    outer_frame.f_back is not None", "C15", "glet312")
m("c15-await-elaborator", GL, '        return frame.pyframe.f_locals.get("coro")\n', '        return None\n', "C15", "gback312")
# ---- C16 -------------------------------------------------------------------
m("c16-f5-revert", EX, "                if own_frame is not current:\n                    origin = None", "                if own_frame is None:\n                    origin = None", "C16", "w312")
m("c16-better-origin-always", EX, "        if isinstance(candidate, typelist) or not isinstance(fallback, typelist):\n            return candidate\n        return fallback", "        return candidate", "C16", "w312")
m("c16-outermost-skips-hidden", EX, "            return next(extract_iter(stackitem, errors))", "            it = extract_iter(stackitem, errors)\n            f = next(it)\n            while f.hide:\n                f = next(it)\n            return f", "C16", "hooks312,hooks39")
# ---- C17 -------------------------------------------------------------------
m("c17-no-lock", GL, "    with glue_lock:\n        module_items", "    if True:\n        module_items", "C17", "thr312")
m("c17-prefer-builtin", GL, "                if module_fn is not None:\n                    module_fn()\n                elif builtin_fn is not None:\n                    builtin_fn()", "                if builtin_fn is not None:\n                    builtin_fn()\n                elif module_fn is not None:\n                    module_fn()", "C17", "hist312")
m("c17-f4-revert", GL, "    if len(current) == len(seen) and all(map(operator.is_, current, seen)):", "    if len(current) == len(seen):", "C17", "hist312")
m("c17-cache-inside-loop", GL, "        for module_name, _ in module_items:\n            builtin_fn", "        for module_name, _ in module_items:\n            _sys_modules_cache[0] = tuple(module for _, module in module_items)\n            builtin_fn", "C17", "thr312,hist312")
# ---- C18 / C19 -------------------------------------------------------------------
m("c18-first-marker", TY, "                marker = start_frame if idx == 0 else continue_frame", "                marker = start_frame if idx <= 1 else continue_frame", "C18", "fmt312")
m("c18-child-indicator", TY, "                    elif line.startswith(child_context_indicator):\n                        lines.append(start_child_context + line)\n", "", "C18", "fmt312")
m("c18-hidden-context-printed", TY, "        if self.hide and not opts.show_hidden_frames:\n            return []\n", "", "C18", "fmt312")
m("c18-blank-lines", TY, "            did_blank = bool(sublines and not sublines[-1].strip())", "            did_blank = False", "C18", "fmt312", kind="neutral-or-cosmetic")
m("c19-frame-entry-always", TY, "        if not (self.contexts and self.contexts[-1].is_exiting):\n            yield self.as_stdlib_summary(capture_locals=capture_locals)", "        if True:\n            yield self.as_stdlib_summary(capture_locals=capture_locals)", "C19", "fmt312")
m("c19-hidden-not-passed", TY, "                yield from subctx._frame_summaries(\n                    parent,\n                    show_hidden_frames,", "                yield from subctx._frame_summaries(\n                    parent,\n                    False,", "C19", "fmt312")
m("c19-startline-swapped", TY, "            self.start_line or parent.lineno,", "            parent.lineno or self.start_line,", "C19", "fmt312")
# ---- C20 -------------------------------------------------------------------
m("c20-origin-root-switch", LL, "        root = origin\n", "        root = frame\n", "C20", "off312,off311")
m("c20-async-name-test", LL, '                    is_async="a" in referent.__func__.__name__,', '                    is_async=referent.__func__.__name__ == "__exit__",', "C20", "off312,off39")
m("c20-swallow-without-warning", LL, "        except Exception as ex:\n            warnings.warn(\n                \"Inspection trickery failed on frame {!r}: {!r}. \"", "        except Exception as ex:\n            (lambda *a, **k: None)(\n                \"Inspection trickery failed on frame {!r}: {!r}. \"", "C20", "fault312")
m("c20-no-fallback-try", LL, "        try:\n            ret = _contexts_active_by_trickery(frame)\n        except Exception as ex:", "        try:\n            ret = _contexts_active_by_trickery(frame)\n        except ZeroDivisionError as ex:", "C20", "fault312")
# ---- neutral edits: must NOT raise an alarm ---------------------------------
m("neutral-rename-local", EX, "        frame, depth = to_elaborate.popleft()\n        assert isinstance(frame, Frame)", "        frame, depth = to_elaborate.popleft()\n        assert isinstance(frame, Frame)\n        _unused = depth", "C10", "model312", kind="neutral")
m("neutral-equivalent-condition", LL, "    if offs < 0:\n        return None", "    if not offs >= 0:\n        return None", "C01", "prog312", kind="neutral")
m("neutral-glue-order", GL, "    with glue_lock:\n        module_items = tuple(sys.modules.items())", "    with glue_lock:\n        module_items = tuple(list(sys.modules.items()))", "C17", "hist312,thr312", kind="neutral")
m("neutral-format", TY, '        start_leaf = "+ " if opts.ascii_only else "╚ "', '        start_leaf = ("+ " if opts.ascii_only else "╚ ")', "C18", "fmt312", kind="neutral")


EQUIVALENT = {
    "c03-asend-first-referent": "the async generator is the first referent of its asend/athrow object",
    "c06-agen-left-open": "the type-discovery async generator is never started on these interpreters, so closing it is a no-op and it is freed with the function's locals",
    "c07-retry-break": "leaving the loop by break leaves `lasti` unbound: inspect_frame raises (NameError), i.e. the snapshot is rejected, which the property allows",
    "c07-read-owned-by-frame-object": "for a finished frame no blocks are reported (F10), so whatever is read from its cleared stack is never used",
    "c10-identity-vs-equality": "items of the generated worlds have identity equality; the documentation does not say whether 'ends with next_inner' means identity or equality",
    "c15-parent-stop": "on CPython a greenlet's stack ends at f_back None; the parent's gr_frame test only matters on PyPy",
    "c16-better-origin-always": "since F5 a non-generator-like origin is dropped when the Frame is built, so preferring it changes nothing observable",
    "c07-f15-stacktop-read-twice": "masked by the other clause of the same repair: when the frame gets suspended between the two reads the final assert (f_stacktop / f_lasti unchanged) rejects the snapshot; survived 100 k racing runs of the thorough tier as well",
    "c18-blank-lines": "cosmetic: an extra blank separator line; the reader skips blank lines",
}


def sh(cmd, env=None, cwd=None, timeout=1800):
    e = dict(os.environ)
    e.update(env or {})
    p = subprocess.Popen(cmd, shell=True, env=e, cwd=cwd, stdout=subprocess.PIPE, stderr=subprocess.STDOUT, start_new_session=True)
    try:
        out, _ = p.communicate(timeout=timeout)
    except subprocess.TimeoutExpired:
        import signal
        try:
            os.killpg(p.pid, signal.SIGKILL)
        except OSError:
            pass
        out, _ = p.communicate()
        return 124, out.decode("utf-8", "replace") + "\n[timed out]"
    return p.returncode, out.decode("utf-8", "replace")


def main(argv):
    no_tests = "--no-tests" in argv
    ids = [a for a in argv if not a.startswith("--")]
    path = os.path.join(VERIF, "selftest", "mutants.json")
    results = {}
    if os.path.exists(path):
        results = json.load(open(path))
    todo = [x for x in M if not ids or x["id"] in ids or x["prop"] in ids]
    for a in argv:
        if a.startswith("--from="):
            k = [x["id"] for x in todo].index(a.split("=", 1)[1])
            todo = todo[k:]
    for x in todo:
        keep_replays = set(os.listdir(os.path.join(VERIF, "replays")))
        scratch = tempfile.mkdtemp(prefix="mutant-")
        res = {"property": x["prop"], "kind": x["kind"], "legs": x["legs"]}
        try:
            shutil.copytree("/repo/stackscope", os.path.join(scratch, "stackscope"))
            p = os.path.join(scratch, x["file"])
            s = open(p).read()
            if x["old"] not in s:
                res["status"] = "does-not-apply"
                results[x["id"]] = res
                print(x["id"], "DOES NOT APPLY")
                continue
            s = s.replace(x["old"], x["new"], 1)
            if x["id"] == "c06-leak-details":
                s = s.replace("_can_use_trickery: Optional[bool] = None", "_leak: List[object] = []\n_can_use_trickery: Optional[bool] = None", 1)
            open(p, "w").write(s)
            if not no_tests:
                rc, out = sh("/venv/bin/python -m pytest -q -x -p no:cacheprovider --timeout=60 stackscope", env={"PYTHONPATH": scratch}, cwd=scratch, timeout=400)
                res["tests_pass"] = rc == 0
            t0 = time.time()
            legs = " --legs " + x["legs"] if x["legs"] else ""
            rc, out = sh("./check %s --tier quick --repo %s%s" % (x["prop"], scratch, legs), cwd=VERIF, env={"VERIF_REPO": scratch})
            kinds = sorted(set(l.strip().split("kind=")[1].split(" ")[0] for l in out.splitlines() if l.strip().startswith("violation kind=")))
            res["exit"] = rc
            res["violation_kinds"] = kinds
            res["wall_s"] = round(time.time() - t0, 1)
            if x["kind"] == "neutral":
                res["status"] = "ok-quiet" if rc == 0 else "FALSE-ALARM"
            else:
                # exit 2 together with violation kinds: the mutated ctypes code also killed a
                # worker of a leg where a crash is a harness error; the violation still fired
                res["status"] = "killed" if rc == 1 and kinds else ("survived" if rc == 0 else ("killed+harness-error" if kinds else "harness-error"))
                if x["id"] in EQUIVALENT and res["status"] == "survived":
                    res["status"] = "survived(equivalent)"
                    res["why_equivalent"] = EQUIVALENT[x["id"]]
            if rc == 2:
                res["output_tail"] = out[-800:]
        finally:
            shutil.rmtree(scratch, ignore_errors=True)
            for f in os.listdir(os.path.join(VERIF, "replays")):
                if f.endswith(".json") and f not in keep_replays:
                    os.remove(os.path.join(VERIF, "replays", f))
        results[x["id"]] = res
        print(x["id"], res.get("status"), res.get("violation_kinds"), "tests_pass=%s" % res.get("tests_pass"))
        sys.stdout.flush()
        with open(path, "w") as f:
            json.dump(results, f, indent=1, sort_keys=True)
    tot = [r for r in results.values() if r["kind"] == "mutant"]
    killed = [r for r in tot if str(r.get("status", "")).startswith("killed")]
    print("mutants killed %d / %d; not killed: %s" % (len(killed), len(tot), sorted((k, r.get("status")) for k, r in results.items() if r["kind"] == "mutant" and not str(r.get("status", "")).startswith("killed"))))
    print("neutral edits: %s" % dict((k, r["status"]) for k, r in results.items() if r["kind"] == "neutral"))


if __name__ == "__main__":
    main(sys.argv[1:])
